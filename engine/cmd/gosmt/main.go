// gosmt check <property> [--tier quick|thorough]
package main

import (
	"flag"
	"fmt"
	"os"
	"strconv"
	"runtime/pprof"

	"gosmt/driver"
)

func main() {
	if len(os.Args) < 3 || os.Args[1] != "check" {
		fmt.Fprintln(os.Stderr, "usage: gosmt check <Cxx> [--tier quick|thorough] [--only prefix]")
		os.Exit(2)
	}
	id := os.Args[2]
	fs := flag.NewFlagSet("check", flag.ExitOnError)
	tier := fs.String("tier", "", "quick or thorough")
	only := fs.String("only", "", "run only harnesses with this name prefix (debugging; evidence is still written)")
	cores := fs.Int("cores", 16, "worker count")
	fs.Parse(os.Args[3:])
	if *tier == "" {
		*tier = os.Getenv("VERIF_TIER")
	}
	if *tier == "" {
		*tier = "quick"
	}
	seed, _ := strconv.ParseInt(os.Getenv("VERIF_SEED"), 10, 64)
	p := driver.Properties[id]
	if p == nil {
		fmt.Fprintln(os.Stderr, "unknown property", id)
		os.Exit(2)
	}
	if pf := os.Getenv("GOSMT_PROF"); pf != "" {
		f, _ := os.Create(pf)
		pprof.StartCPUProfile(f)
		defer pprof.StopCPUProfile()
	}
	r := &driver.Runner{Prop: p, Tier: *tier, Seed: seed, Known: driver.LoadKnown(), Cores: *cores, Only: *only}
	code := r.Run()
	pprof.StopCPUProfile()
	os.Exit(code)
}
