package main

import (
	"fmt"
	"golang.org/x/tools/go/packages"
	"golang.org/x/tools/go/ssa"
	"golang.org/x/tools/go/ssa/ssautil"
)

func main() {
	cfg := &packages.Config{Mode: packages.LoadAllSyntax, Dir: "/repo"}
	pkgs, err := packages.Load(cfg, "./encoding/wkb")
	if err != nil { panic(err) }
	prog, sp := ssautil.AllPackages(pkgs, ssa.InstantiateGenerics)
	prog.Build()
	fmt.Println(len(sp), sp[0])
}
