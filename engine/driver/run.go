package driver

import (
	"strconv"
	"bufio"
	"math"
	"encoding/json"
	"fmt"
	"os"
	"os/exec"
	"path/filepath"
	"sort"
	"strings"
	"time"

	"golang.org/x/tools/go/ssa"

	"gosmt/lift"
	"gosmt/smt"
	"gosmt/ssaexec"
)

// HarnessOpt tunes one harness (matched by name prefix).
type HarnessOpt struct {
	Prefix    string
	Mode      string // F (default) | G
	Solver    string // z3 (default) | cvc5 | z3-new
	MaxUnwind int
	MaxSteps  int
	MaxPaths  int
	TimeoutMs int
	Alloc     bool
	MapOrders bool
	Workers   int // modelled GOMAXPROCS
	ThoroughOnly bool
	// QuickBoundsOnly: the thorough tier runs this harness with its quick bounds
	// (the deeper bounds were not validated to finish on the unchanged tree)
	QuickBoundsOnly bool
	UnwindIsViolation bool
	Merge []string
	IfConv bool
	MaxSplit int
	Preempt [2]int // bound on preemptions per tier (quick, thorough)
}

type Property struct {
	ID          string
	Pkgs        []string // /repo-relative package dirs holding harnesses
	InitPkgs    []string // packages whose init runs before each path (rel dirs)
	Level       string
	Opts        []HarnessOpt
	Bounds      map[string]string
	Assumptions []string
	Outside     []string
	Rule        string
	Extra       func(r *Runner) // additional non-harness obligations
	Hooks       []HookSpec
	// QuickBoundsOnly: the thorough tier of this property runs the quick bounds
	QuickBoundsOnly bool
}

type HarnessResult struct {
	Name     string
	Pkg      string
	Report   *ssaexec.Report
	Stats    *ssaexec.ParallelStats
	Wall     float64
	Err      error
	Mode     string
}

type FindingOut struct {
	Harness string `json:"harness"`
	Kind    string `json:"kind"`
	Label   string `json:"label"`
	Msg     string `json:"msg,omitempty"`
	Replay  string `json:"replay,omitempty"`
	Native  string `json:"native"`
	Class   string `json:"class"` // violation | known | unconfirmed
}

type Runner struct {
	Prop   *Property
	Tier   string
	Seed   int64
	L      *Loaded
	Known  []KnownEntry
	Cores  int
	Extras []ExtraObligation
	log    *os.File
	Only   string
}

type ExtraObligation struct {
	Name    string `json:"name"`
	Verdict string `json:"verdict"`
	Solver  string `json:"solver"`
	Seconds float64 `json:"seconds"`
	Detail  string `json:"detail,omitempty"`
}

type KnownEntry struct {
	Kind     string // known | fixed
	Property string
	Harness  string
	Label    string
	Text     string
}

func LoadKnown() []KnownEntry {
	f, err := os.Open(filepath.Join(VerifDir, "known_findings.txt"))
	if err != nil {
		return nil
	}
	defer f.Close()
	var out []KnownEntry
	sc := bufio.NewScanner(f)
	for sc.Scan() {
		line := strings.TrimSpace(sc.Text())
		if line == "" || strings.HasPrefix(line, "#") {
			continue
		}
		var e KnownEntry
		switch {
		case strings.HasPrefix(line, "known:"):
			e.Kind = "known"
		case strings.HasPrefix(line, "fixed:"):
			e.Kind = "fixed"
		default:
			continue
		}
		rest := strings.Fields(line[6:])
		var text []string
		for _, w := range rest {
			switch {
			case strings.HasPrefix(w, "property="):
				e.Property = w[9:]
			case strings.HasPrefix(w, "harness="):
				e.Harness = w[8:]
			case strings.HasPrefix(w, "label="):
				e.Label = w[6:]
			default:
				text = append(text, w)
			}
		}
		e.Text = strings.Join(text, " ")
		out = append(out, e)
	}
	return out
}

func (r *Runner) optFor(name string) HarnessOpt {
	o := HarnessOpt{Mode: "F", Solver: "z3", MaxUnwind: 12, MaxSteps: 3_000_000, TimeoutMs: 60_000}
	best := -1
	for _, c := range r.Prop.Opts {
		if strings.HasPrefix(name, c.Prefix) && len(c.Prefix) > best {
			best = len(c.Prefix)
			if c.Mode != "" {
				o.Mode = c.Mode
			}
			if c.Solver != "" {
				o.Solver = c.Solver
			}
			if c.MaxUnwind != 0 {
				o.MaxUnwind = c.MaxUnwind
			}
			if c.MaxSteps != 0 {
				o.MaxSteps = c.MaxSteps
			}
			if c.MaxPaths != 0 {
				o.MaxPaths = c.MaxPaths
			}
			if c.TimeoutMs != 0 {
				o.TimeoutMs = c.TimeoutMs
			}
			o.Alloc = c.Alloc
			o.MapOrders = c.MapOrders
			o.Workers = c.Workers
			o.ThoroughOnly = c.ThoroughOnly
			o.QuickBoundsOnly = c.QuickBoundsOnly
			o.UnwindIsViolation = c.UnwindIsViolation
			o.Merge = c.Merge
			o.IfConv = c.IfConv
			o.MaxSplit = c.MaxSplit
			o.Preempt = c.Preempt
		}
	}
	return o
}

// harnesses lists VH_<ID>_* functions of the loaded harness packages.
func (r *Runner) harnesses() []struct {
	rel string
	fn  *ssa.Function
} {
	var out []struct {
		rel string
		fn  *ssa.Function
	}
	for _, rel := range r.Prop.Pkgs {
		p := r.L.Pkg(rel)
		if p == nil {
			continue
		}
		var names []string
		for n, m := range p.Members {
			if f, ok := m.(*ssa.Function); ok && strings.HasPrefix(n, "VH_"+r.Prop.ID+"_") && f.Signature.Params().Len() == 0 {
				names = append(names, n)
			}
		}
		sort.Strings(names)
		for _, n := range names {
			out = append(out, struct {
				rel string
				fn  *ssa.Function
			}{rel, p.Func(n)})
		}
	}
	return out
}

func (r *Runner) runHarness(rel string, fn *ssa.Function, workers int) *HarnessResult {
	o := r.optFor(fn.Name())
	t0 := time.Now()
	var initPkgs []*ssa.Package
	for _, ip := range r.Prop.InitPkgs {
		if p := r.L.Pkg(ip); p != nil {
			initPkgs = append(initPkgs, p)
		}
	}
	if p := r.L.Pkg(rel); p != nil {
		found := false
		for _, q := range initPkgs {
			if q == p {
				found = true
			}
		}
		if !found {
			initPkgs = append(initPkgs, p)
		}
	}
	tier := 0
	if r.Tier == "thorough" && !o.QuickBoundsOnly && !r.Prop.QuickBoundsOnly {
		tier = 1
	}
	mk := func() (*ssaexec.Exec, error) {
		c := smt.NewCtx()
		s, err := smt.NewSession(o.Solver, c, o.TimeoutMs)
		if err != nil {
			return nil, err
		}
		x := &ssaexec.Exec{Prog: r.L.Prog, C: c, S: s, ModPath: ModPath}
		x.Opt = ssaexec.Options{MaxUnwind: o.MaxUnwind, MaxSteps: o.MaxSteps, MaxSplit: o.MaxSplit, InitPkgs: initPkgs, MapOrders: o.MapOrders, Workers: o.Workers, Tier: tier}
		x.Opt.IfConv = o.IfConv
		x.Opt.Preempt = o.Preempt[tier]
		if tp := os.Getenv("GOSMT_TAPE"); tp != "" {
			b, _ := os.ReadFile(tp)
			json.Unmarshal(b, &x.TapeIn)
		}
		if len(o.Merge) > 0 {
			x.Opt.Merge = map[string]bool{}
			for _, m := range o.Merge {
				x.Opt.Merge[m] = true
			}
		}
		if o.Alloc {
			x.Opt.AllocLimit = func(n int) int64 { return 64*int64(n) + 16<<20 }
		}
		if o.Mode == "U" {
			x.LiftMode = "U"
			x.NewLifter = func(c *smt.Ctx) ssaexec.Lifter { return lift.NewU(c) }
		}
		if o.Mode == "R" {
			x.LiftMode = "R"
			x.NewLifter = func(c *smt.Ctx) ssaexec.Lifter { return lift.NewR(c) }
		}
		if o.Mode == "G" {
			x.LiftMode = "G"
			x.NewLifter = func(c *smt.Ctx) ssaexec.Lifter { return lift.NewG(c) }
		}
		return x, nil
	}
	rep, st, err := ssaexec.ParallelExplore(fn, workers, mk, o.MaxPaths, 3)
	return &HarnessResult{Name: fn.Name(), Pkg: rel, Report: rep, Stats: st, Err: err, Wall: time.Since(t0).Seconds(), Mode: o.Mode}
}

// Run executes the whole check and returns the process exit code.
func (r *Runner) Run() int {
	t0 := time.Now()
	prop := r.Prop
	// exploration budget: quick 30 min (the slowest quick check needs ~8 on the
	// unchanged tree), thorough 6 h; GOSMT_DEADLINE_S overrides (0 = none)
	budget := 30 * time.Minute
	if r.Tier == "thorough" {
		budget = 6 * time.Hour
	}
	if v, err := strconv.Atoi(os.Getenv("GOSMT_DEADLINE_S")); err == nil {
		budget = time.Duration(v) * time.Second
	}
	if budget > 0 {
		ssaexec.ExploreDeadline = t0.Add(budget)
	}
	hooks := append([]HookSpec{}, prop.Hooks...)
	for _, rel := range prop.Pkgs {
		if rel == "." {
			// the root-package harness files include the C01/C14 harness, which needs the clipper hook
			hooks = append(hooks, RootHooks...)
		}
	}
	L, err := Load(prop.Pkgs, hooks...)
	if err != nil {
		fmt.Println("CHECK-BROKEN:", err)
		return 2
	}
	r.L = L
	defer L.Cleanup()
	hs := r.harnesses()
	if len(hs) == 0 {
		fmt.Println("CHECK-BROKEN: no harnesses found for", prop.ID)
		return 2
	}
	cores := r.Cores
	if cores <= 0 {
		cores = 16
	}
	// schedule: harnesses run concurrently, each with a share of the workers
	type job struct {
		rel string
		fn  *ssa.Function
	}
	var jobs []job
	for _, h := range hs {
		o := r.optFor(h.fn.Name())
		if o.ThoroughOnly && (r.Tier != "thorough" || r.Prop.QuickBoundsOnly || o.QuickBoundsOnly) {
			continue
		}
		if r.Only != "" && !strings.HasPrefix(h.fn.Name(), r.Only) {
			continue
		}
		jobs = append(jobs, job{h.rel, h.fn})
	}
	results := make([]*HarnessResult, len(jobs))
	// harnesses run one after the other, each with all workers (the path
	// worklist inside a harness is what is parallel)
	for i, j := range jobs {
		results[i] = r.runHarness(j.rel, j.fn, cores)
		hr := results[i]
		und := ""
		if hr.Stats.Undecided > 0 || hr.Stats.Poisoned > 0 {
			und = fmt.Sprintf(" overapprox-conds=%d undecided-assertions=%d", hr.Stats.Poisoned, hr.Stats.Undecided)
		}
		fmt.Fprintf(os.Stderr, "  %-44s paths=%-6d ends=%v findings=%d q=%d solver=%.1fs wall=%.1fs ifconv=%d%s\n", hr.Name, hr.Report.Paths, hr.Report.Ends, len(hr.Report.Findings), hr.Stats.Solver.Queries, hr.Stats.Solver.Seconds, hr.Wall, hr.Stats.IfConv, und)
		if hr.Err != nil {
			fmt.Fprintf(os.Stderr, "    error: %v\n", hr.Err)
		}
	}
	if prop.Extra != nil {
		prop.Extra(r)
	}

	// ---- triage ----
	exit := 0
	broken := []string{}
	var outs []FindingOut
	violations := 0
	knownHit := map[int]bool{}
	replayRoot := filepath.Join(VerifDir, "replays", prop.ID)
	os.RemoveAll(replayRoot)
	nrep := 0
	for _, hr := range results {
		if hr.Err != nil {
			broken = append(broken, hr.Err.Error())
			continue
		}
		if hr.Report.Truncated {
			broken = append(broken, hr.Name+": path or wall-clock budget exhausted (bound not covered)")
		}
		if hr.Report.Reached["end"] == 0 {
			broken = append(broken, hr.Name+": vacuous, no path reaches vReach(\"end\")")
		}
		for _, f := range hr.Report.Findings {
			fo := FindingOut{Harness: hr.Name, Kind: f.Kind, Label: f.Label, Msg: f.Msg}
			if f.Kind == "unknown" {
				broken = append(broken, fmt.Sprintf("%s: solver unknown at assertion %s", hr.Name, f.Label))
				continue
			}
			if f.Kind == "unwind" && !r.optFor(hr.Name).UnwindIsViolation {
				broken = append(broken, fmt.Sprintf("%s: unwinding bound exceeded: %s", hr.Name, f.Msg))
				continue
			}
			if f.Tape == nil {
				broken = append(broken, fmt.Sprintf("%s: finding %s/%s without a model", hr.Name, f.Kind, f.Label))
				continue
			}
			nrep++
			dir := filepath.Join(replayRoot, fmt.Sprintf("%03d_%s_%s", nrep, hr.Name, sanitize(f.Label)))
			to := 120 * time.Second
			if f.Kind == "unwind" {
				to = 10 * time.Second
			}
			rr, err := L.Replay(hr.Pkg, hr.Name, f.Tape, dir, to)
			if err != nil {
				broken = append(broken, "replay: "+err.Error())
				continue
			}
			fo.Replay = dir
			fo.Native = rr.Kind
			confirmed := rr.Confirmed
			if f.Kind == "alloc" {
				// the allocation bound is checked by the meter; natively we confirm
				// that the same input drives the real decoder to request the memory
				confirmed = rr.Kind == "alloc" || rr.Kind == "hang" || rr.Kind == "panic" || rr.Kind == "assert"
			}
			if !confirmed && r.optFor(hr.Name).Workers > 0 && rr.Kind == "clean" {
				// a finding that depends on the goroutine schedule: the native run uses
				// whatever schedule the Go runtime picks, so it is retried a few times;
				// if it never shows, the recorded decision vector (schedule) replayed
				// by the executor over the real code is the evidence
				for try := 0; try < 5 && !confirmed; try++ {
					rr2, err := L.Replay(hr.Pkg, hr.Name, f.Tape, dir, to)
					if err == nil && rr2.Confirmed {
						rr, confirmed = rr2, true
						fo.Native = rr2.Kind
					}
				}
				if !confirmed {
					fo.Native = "not reproduced by the Go scheduler; schedule recorded"
					b, _ := json.Marshal(f.Path)
					os.WriteFile(filepath.Join(dir, "schedule_decisions.json"), b, 0o644)
					confirmed = true
				}
			}
			if !confirmed && r.optFor(hr.Name).Mode == "U" {
				// under uninterpreted arithmetic the model's input values are arbitrary
				// (often all zero, where many differences vanish): retry natively with
				// generic values for the float inputs, same case-split choices
				gt := append([]ssaexec.TapeEntry{}, f.Tape...)
				k := 0
				for i := range gt {
					if gt[i].Kind == "f64" {
						k++
						gt[i].V = math.Float64bits(17.25 + 3.0625*float64(k) + 1/float64(k+2))
					}
				}
				rr2, err := L.Replay(hr.Pkg, hr.Name, gt, dir, to)
				if err == nil && rr2.Confirmed {
					rr, confirmed = rr2, true
					fo.Native = rr2.Kind + " (generic input values)"
				}
				// a path may pin one input to a literal (x == 0 guards): keep the
				// model's value for one float input at a time, generic values elsewhere
				for i := 0; i < len(gt) && !confirmed; i++ {
					if gt[i].Kind != "f64" || gt[i].V == f.Tape[i].V {
						continue
					}
					ht := append([]ssaexec.TapeEntry{}, gt...)
					ht[i].V = f.Tape[i].V
					rr3, err := L.Replay(hr.Pkg, hr.Name, ht, dir, to)
					if err == nil && rr3.Confirmed {
						rr, confirmed = rr3, true
						fo.Native = fmt.Sprintf("%s (generic input values, model value kept for float input %d)", rr3.Kind, i)
					}
				}
			}
			if !confirmed && f.OverApprox {
				// a candidate on a path whose branch conditions left the exact
				// domain counts only if it reproduces natively
				fo.Class = "over-approximation-artefact"
				outs = append(outs, fo)
				continue
			}
			if !confirmed {
				fo.Class = "unconfirmed"
				broken = append(broken, fmt.Sprintf("%s: %s/%s did not reproduce natively (%s) — encoding or stub at fault; see %s", hr.Name, f.Kind, f.Label, rr.Kind, dir))
				outs = append(outs, fo)
				continue
			}
			ki := r.matchKnown(prop.ID, hr.Name, f.Label)
			if ki >= 0 {
				fo.Class = "known"
				knownHit[ki] = true
				fmt.Printf("KNOWN-FINDING: property=%s harness=%s label=%s %s\n", prop.ID, hr.Name, f.Label, r.Known[ki].Text)
			} else {
				fo.Class = "violation"
				violations++
				fmt.Printf("VIOLATION property=%s replay=%s\n", prop.ID, dir)
				fmt.Printf("  harness=%s kind=%s label=%s %s\n", hr.Name, f.Kind, f.Label, f.Msg)
				exit = 1
			}
			outs = append(outs, fo)
		}
	}
	// lemmas used by harnesses must be proved by a harness of this run
	for _, hr := range results {
		if hr.Stats == nil {
			continue
		}
		for l := range hr.Stats.Lemmas {
			ok := false
			for _, other := range results {
				if other.Name == l && other.Err == nil && len(other.Report.Findings) == 0 && other.Report.Reached["end"] > 0 && !other.Report.Truncated {
					ok = true
				}
			}
			if !ok && r.Only == "" {
				broken = append(broken, fmt.Sprintf("%s uses lemma %s which is not proved in this run", hr.Name, l))
			}
		}
	}
	for _, e := range r.Extras {
		if e.Verdict != "unsat" && e.Verdict != "ok" {
			broken = append(broken, fmt.Sprintf("obligation %s: %s %s", e.Name, e.Verdict, e.Detail))
		}
	}
	// known findings that no longer reproduce are only reported
	for i, k := range r.Known {
		if k.Kind == "known" && k.Property == prop.ID && !knownHit[i] {
			ran := false
			for _, hr := range results {
				if hr.Name == k.Harness {
					ran = true
				}
			}
			if ran {
				fmt.Printf("NOTE: known finding no longer reproduces: property=%s harness=%s label=%s\n", prop.ID, k.Harness, k.Label)
			}
		}
	}

	// ---- trace conformance ----
	conf, confBroken := r.conformance(results)
	broken = append(broken, confBroken...)

	// ---- evidence ----
	r.writeEvidence(results, outs, conf, violations, broken, time.Since(t0).Seconds())
	if len(broken) > 0 {
		for _, b := range broken {
			fmt.Println("CHECK-BROKEN:", b)
		}
		if exit == 0 {
			exit = 2
		}
	}
	if exit == 0 {
		fmt.Printf("OK property=%s tier=%s harnesses=%d wall=%.1fs\n", prop.ID, r.Tier, len(results), time.Since(t0).Seconds())
	}
	return exit
}

func sanitize(s string) string {
	var sb strings.Builder
	for _, r := range s {
		if r >= 'a' && r <= 'z' || r >= 'A' && r <= 'Z' || r >= '0' && r <= '9' || r == '-' || r == '_' {
			sb.WriteRune(r)
		} else {
			sb.WriteRune('_')
		}
	}
	return sb.String()
}

func (r *Runner) matchKnown(prop, harness, label string) int {
	for i, k := range r.Known {
		if k.Kind == "known" && k.Property == prop && k.Harness == harness && k.Label == label {
			return i
		}
	}
	return -1
}

// conformance replays sampled ok-paths natively in one go test per package
// and checks that the native run follows the tape to the end with every
// assertion holding (Serval-style validation of the encoder).
func (r *Runner) conformance(results []*HarnessResult) (int, []string) {
	type item struct {
		harness string
		tape    string
	}
	byPkg := map[string][]item{}
	dir := filepath.Join(r.L.Scratch, "conf")
	os.MkdirAll(dir, 0o755)
	n := 0
	for _, hr := range results {
		if hr.Err != nil {
			continue
		}
		if r.optFor(hr.Name).Workers > 0 && len(hr.Report.Findings) > 0 {
			// schedule-dependent behaviour was found: a native run under the Go
			// scheduler is not comparable with one recorded schedule
			continue
		}
		for _, s := range hr.Report.Samples {
			if s.Tape == nil {
				continue
			}
			n++
			tp := filepath.Join(dir, fmt.Sprintf("t%d.json", n))
			b, _ := json.Marshal(s.Tape)
			os.WriteFile(tp, b, 0o644)
			byPkg[hr.Pkg] = append(byPkg[hr.Pkg], item{hr.Name, tp})
		}
	}
	validated := 0
	var broken []string
	for rel, items := range byPkg {
		pkgName := r.L.Pkg(rel).Pkg.Name()
		var sb strings.Builder
		fmt.Fprintf(&sb, "package %s\n\nimport (\n\t\"fmt\"\n\t\"testing\"\n)\n\nfunc TestVConform(t *testing.T) {\n", pkgName)
		for i, it := range items {
			fmt.Fprintf(&sb, "\tfmt.Println(\"VCONF %d\", vRunOne(%s, %q))\n", i, it.harness, it.tape)
		}
		sb.WriteString("}\n")
		testPath := filepath.Join(dir, "zz_verif_conform_"+sanitize(rel)+"_test.go")
		os.WriteFile(testPath, []byte(sb.String()), 0o644)
		ov := map[string]string{}
		for v, real := range r.L.Overlay {
			ov[v] = real
		}
		ov[filepath.Join(RepoDir, rel, "zz_verif_conform_test.go")] = testPath
		ob, _ := json.Marshal(map[string]interface{}{"Replace": ov})
		ovPath := filepath.Join(dir, "overlay_"+sanitize(rel)+".json")
		os.WriteFile(ovPath, ob, 0o644)
		cmd := exec.Command("go", "test", "-vet=off", "-count=1", "-overlay", ovPath, "-v", "-run", "^TestVConform$", "-timeout", "300s", "./"+rel)
		cmd.Dir = RepoDir
		cmd.Env = goEnv(r.L.Scratch)
		out, _ := cmd.CombinedOutput()
		o := string(out)
		got := map[int]string{}
		for _, line := range strings.Split(o, "\n") {
			var idx int
			if strings.HasPrefix(line, "VCONF ") {
				parts := strings.SplitN(line, " ", 3)
				fmt.Sscanf(parts[1], "%d", &idx)
				if len(parts) > 2 {
					got[idx] = parts[2]
				}
			}
		}
		for i, it := range items {
			res, ok := got[i]
			if !ok {
				broken = append(broken, fmt.Sprintf("conformance: %s: native run produced no result (%s)", it.harness, tail(o, 600)))
				break
			}
			if res != "OK" {
				broken = append(broken, fmt.Sprintf("conformance: %s: native run disagrees with the symbolic path: %s", it.harness, res))
				continue
			}
			validated++
		}
	}
	return validated, broken
}

func (r *Runner) writeEvidence(results []*HarnessResult, outs []FindingOut, validated, violations int, broken []string, wall float64) {
	prop := r.Prop
	paths, queries, sat, unsat, unk := 0, 0, 0, 0, 0
	solverS := 0.0
	funcs := map[string]bool{}
	intr := map[string]bool{}
	notes := map[string]bool{}
	var samples []interface{}
	var perH []map[string]interface{}
	nontrivial := 0
	for _, hr := range results {
		if hr.Report == nil {
			continue
		}
		paths += hr.Report.Paths
		if hr.Stats != nil {
			queries += hr.Stats.Solver.Queries
			sat += hr.Stats.Solver.Sat
			unsat += hr.Stats.Solver.Unsat
			unk += hr.Stats.Solver.Unknown
			solverS += hr.Stats.Solver.Seconds
			for k := range hr.Stats.Funcs {
				funcs[k] = true
			}
			for k := range hr.Stats.Intr {
				intr[k] = true
			}
			for k := range hr.Stats.Notes {
				notes[k] = true
			}
			for k := range hr.Stats.Lemmas {
				notes["lemma used: "+k] = true
			}
			for k, v := range hr.Stats.Merged {
				notes[fmt.Sprintf("merged pure callee %s", k)] = true
				_ = v
			}
			if r.Tier == "thorough" && (r.Prop.QuickBoundsOnly || r.optFor(hr.Name).QuickBoundsOnly) {
				notes["thorough tier run with the quick bounds for "+hr.Name+": deeper bounds were not validated to finish on the unchanged tree in the time available"] = true
			}
			if hr.Stats.Poisoned > 0 {
				notes["G: some branch conditions left the exact domain and were over-approximated"] = true
			}
		}
		nontrivial += hr.Report.Ends["ok"]
		for i, s := range hr.Report.Samples {
			if i < 1 {
				samples = append(samples, s)
			}
		}
		if hr.Stats != nil && hr.Stats.Undecided > 0 {
			notes[fmt.Sprintf("%s: %d assertion instances left undecided (candidate did not satisfy the exact semantics on an over-approximated path)", hr.Name, hr.Stats.Undecided)] = true
		}
		h := map[string]interface{}{"harness": hr.Name, "paths": hr.Report.Paths, "ends": hr.Report.Ends, "reached": hr.Report.Reached, "wall_s": round(hr.Wall), "float_mode": hr.Mode}
		if hr.Stats != nil {
			h["queries"] = hr.Stats.Solver.Queries
			h["solver_s"] = round(hr.Stats.Solver.Seconds)
		}
		if hr.Err != nil {
			h["error"] = hr.Err.Error()
		}
		perH = append(perH, h)
	}
	var repoFuncs []string
	for _, f := range sortedKeys(funcs) {
		if strings.Contains(f, "VH_") || strings.Contains(f, ".v") && strings.Contains(f, ModPath) && isRTName(f) {
			continue
		}
		repoFuncs = append(repoFuncs, f)
	}
	if len(samples) == 0 {
		samples = append(samples, "no completed path")
	}
	cov := map[string]interface{}{
		"states":                        paths,
		"transitions":                   queries,
		"traces_validated_against_impl": validated,
		"samples":                       samples,
		"evaluations":                   paths,
		"distinct_nontrivial":           nontrivial,
		"rule":                          prop.Rule,
		"functions_encoded":             repoFuncs,
		"modelled_by_contract":          sortedKeys(intr),
		"bounds":                        prop.Bounds,
		"outside_the_claim":             prop.Outside,
		"queries":                       map[string]int{"total": queries, "sat": sat, "unsat": unsat, "unknown": unk},
		"solver_seconds":                round(solverS),
		"harnesses":                     perH,
		"findings":                      outs,
		"extra_obligations":             r.Extras,
		"engine_notes":                  sortedKeys(notes),
		"check_broken":                  broken,
		"load_seconds":                  round(r.L.LoadS),
		"exhaustive":                    false,
	}
	if prop.Level == "translation_validation" {
		cov["programs"] = len(results) + len(r.Extras)
		cov["disagreements_checked"] = len(outs)
	}
	ev := map[string]interface{}{
		"property_id": prop.ID,
		"tier":        r.Tier,
		"seed":        r.Seed,
		"level":       prop.Level,
		"coverage":    cov,
		"assumptions": prop.Assumptions,
		"wall_s":      round(wall),
		"violations":  violations,
	}
	b, _ := json.MarshalIndent(ev, "", " ")
	os.MkdirAll(filepath.Join(VerifDir, "evidence"), 0o755)
	os.WriteFile(filepath.Join(VerifDir, "evidence", prop.ID+".json"), b, 0o644)
}

func isRTName(f string) bool {
	i := strings.LastIndex(f, ".")
	if i < 0 || i+2 >= len(f) {
		return false
	}
	n := f[i+1:]
	return len(n) > 1 && n[0] == 'v' && n[1] >= 'A' && n[1] <= 'Z'
}

func round(f float64) float64 { return float64(int(f*100)) / 100 }
