package driver

import (
	"os/exec"
	"path/filepath"
	"strings"
)

// Properties is the registry of checks; see DESIGN.md section 4.
var Properties = map[string]*Property{}

// RootHooks are the overlay hooks every check that loads the root package needs.
var RootHooks []HookSpec

func reg(p *Property) { Properties[p.ID] = p }

func init() {
	reg(&Property{
		ID: "C04", Pkgs: []string{"."}, Level: "model_checking",
		Opts: []HarnessOpt{{Prefix: "VH_C04_collection", QuickBoundsOnly: true}, {Prefix: "VH_C04_multipolygon", QuickBoundsOnly: true}},
		Rule: "one evaluation = one explored path of a harness (a shape: member/vertex counts, nesting) with every coordinate a free 64-bit pattern; non-trivial = path runs to the end of the harness with all assertions discharged by the solver",
		Bounds: map[string]string{
			"coordinates": "all float64 bit patterns except NaN (-0, +-Inf, subnormals included)",
			"shapes":      "<=3 members per level x <=3 vertices, nesting depth <=2 (quick: <=2/3)",
		},
		Assumptions: []string{"math.Min/Max modelled by their documented special-case table (verified against the Go implementation by native trace conformance)"},
		Outside:     []string{"member counts beyond the bound", "NaN coordinates (Bounds of NaN is unspecified)"},
	})
	reg(&Property{
		ID: "C05", Pkgs: []string{"encoding/wkb", "encoding/hex"}, Level: "model_checking",
		Opts: []HarnessOpt{{Prefix: "VH_C05_linestring_chunks", MaxSteps: 400_000_000}},
		Rule: "one evaluation = one explored path (a geometry shape x byte order x per-element order choice) with all coordinates free 64-bit patterns; non-trivial = path ends with every assertion discharged",
		Bounds: map[string]string{
			"coordinates": "all 2^64 bit patterns per coordinate (NaN payloads, -0, Inf)",
			"counts":      "0..2 members per level (thorough 0..3 for flat types), collections nested to depth 2; plus line strings of 4095, 4096, 4097 and 8193 points (the reader's chunk size is a constant of the code)",
			"byte order":  "both for encode; independent per nested element for decode",
		},
		Assumptions: []string{
			"encoding/binary.Read/Write modelled by contract: fixed-size values are read/written as exactly their size in the given byte order via io.ReadFull / Writer.Write (bytes.Buffer, io.ReadFull are executed from their real SSA)",
		},
		Outside: []string{"member counts above the bound", "encoding/binary internals"},
	})
	geomMerge := []string{
		ModPath + ".pointOnSegment", ModPath + ".rayIntersectsSegment", "(" + ModPath + ".WithinStatus).invert",
		"(*" + ModPath + ".Bounds).Overlaps", "(" + ModPath + ".Point).Equals",
	}
	reg(&Property{
		QuickBoundsOnly: true,
		ID: "C02", Pkgs: []string{"."}, Level: "model_checking",
		Rule: "one evaluation = one explored path (ring/vertex counts, bbox-filter and on-edge outcomes) with every coordinate a free grid value; non-trivial = path ends with the classification assertion discharged",
		Opts: []HarnessOpt{{Prefix: "VH_C02_", Mode: "G", Merge: geomMerge, IfConv: true, MaxUnwind: 16}},
		Bounds: map[string]string{
			"grid":   "half-integers k/2, k a signed 3-bit (quick) / 4-bit (thorough) integer",
			"shapes": "<=2 rings x <=4 vertices (5 thorough, single ring), 2 polygons; closed, unclosed, degenerate, self-intersecting, any winding (nothing assumed)",
		},
		Assumptions: []string{
			"G mode: +,-,* on grid values are exact in float64 (width bookkeeping); a rounded quotient is only compared (Lemma Q, distinct grid rationals stay ordered under RNE); Nextafter adds an infinitesimal",
			"comparisons where the nudge may be absorbed by rounding and the exact parts tie are excluded (reported in engine_notes)",
		},
		Outside: []string{"arbitrary floating-point polygons with a clear margin (FP64 division over all doubles is not decidable in reach)", "larger coordinates / more vertices"},
	})
	simMerge := []string{
		ModPath + ".similar", ModPath + ".pointSimilar", ModPath + ".pointsSimilar", ModPath + ".pointssSimilar",
		"(" + ModPath + ".LineString).Similar", "(" + ModPath + ".Point).Similar", "(" + ModPath + ".MultiPoint).Similar",
		ModPath + ".ringSimilar",
	}
	reg(&Property{
		ID: "C15", Pkgs: []string{"."}, Level: "model_checking",
		Rule: "one evaluation = one explored path (pair of shapes, matching decisions) with all coordinates and the tolerance free grid values; non-trivial = path ends with its assertion discharged",
		Opts: []HarnessOpt{{Prefix: "VH_C15_", Mode: "G", Merge: simMerge, IfConv: true, MaxUnwind: 24},
			{Prefix: "VH_C15_sym_polygon", Mode: "G", Merge: simMerge, IfConv: true, MaxUnwind: 24, QuickBoundsOnly: true}},
		Bounds: map[string]string{
			"grid":   "half-integers with 4-6 bit numerators; tolerance a positive grid value",
			"shapes": "<=2-3 members x <=2-4 vertices; all permutations of members, all rotations of closed rings",
		},
		Assumptions: []string{"G mode: a-b exact on the grid; |a-b| and |b-a| are the same term (bit-exact IEEE identity)"},
		Outside:     []string{"arbitrary doubles (the FP64 subtraction is exact only on the grid)", "larger member counts"},
	})
	reg(&Property{
		ID: "C17", Pkgs: []string{"encoding/wkt"}, Level: "model_checking",
		Rule: "one evaluation = one explored path (a geometry shape) with all coordinates free finite doubles; the produced text is parsed by an independent OGC WKT recogniser written in the harness; non-trivial = path ends with all assertions discharged",
		Bounds: map[string]string{
			"coordinates": "all finite float64 bit patterns",
			"shapes":      "1..3 members x 1..2(3) rings x 1..3(4) vertices",
		},
		Assumptions: []string{"strconv.AppendFloat(_, f, 'g', -1, 64) emits one token of [0-9+-.eE] characters that strconv.ParseFloat maps back to exactly f (strconv's shortest round-trip contract; executed for real in the native trace-conformance runs)"},
		Outside:     []string{"the digits themselves", "member counts above the bound"},
	})
	reg(&Property{
		ID: "C06", Pkgs: []string{"encoding/geojson"}, Level: "model_checking",
		Rule: "one evaluation = one explored path (a geometry shape) with all coordinates free finite doubles; non-trivial = path ends with all assertions discharged",
		Bounds: map[string]string{
			"coordinates": "all finite float64 bit patterns (non-finite ones in the rejection harness)",
			"shapes":      "1..3 members x 1..3 rings x 0..3(4) vertices, first member non-empty",
		},
		Assumptions: []string{"encoding/json by contract: Marshal fails iff a float is non-finite; Unmarshal(Marshal(v)) is the generic image of v with numbers round-tripping exactly (executed for real in the native trace-conformance runs)"},
		Outside:     []string{"the decimal text itself (encoding/json's formatting)", "member counts above the bound"},
	})
	reg(&Property{
		QuickBoundsOnly: true,
		ID: "C07", Pkgs: []string{"encoding/wkb", "encoding/hex", "encoding/geojson"}, Level: "model_checking",
		Rule: "one evaluation = one explored decoder path over a buffer of symbolic bytes (byte order, type codes, counts case-split by the solver) or over a generic JSON value tree; non-trivial = path ends with all assertions discharged",
		Opts: []HarnessOpt{
			{Prefix: "VH_C07_", Alloc: true, MaxSplit: 3, MaxUnwind: 16, MaxSteps: 20_000_000},
			{Prefix: "VH_C07_wkb_len22to26", Alloc: true, MaxSplit: 3, MaxUnwind: 16, MaxSteps: 20_000_000, ThoroughOnly: true},
			{Prefix: "VH_C07_wkb_len27to30", Alloc: true, MaxSplit: 2, MaxUnwind: 16, MaxSteps: 20_000_000, ThoroughOnly: true},
		},
		Bounds: map[string]string{
			"wkb":     "all byte strings of length 0..21 (quick) / 0..30 (thorough); count fields case-split 0..3 plus one representative large value per count",
			"geojson": "Geometry values: 8 type strings x generic coordinate trees of depth <=4, width <=2(3)",
			"memory":  "every make/append metered: total <= 64*len(input)+16MiB",
		},
		Assumptions: []string{"encoding/binary.Read allocates a scratch buffer of the full encoded size before reading (as the real one does); io.ReadFull and bytes.Buffer are executed from their real SSA"},
		Outside:     []string{"inputs longer than the bound (64 KiB in the property)", "JSON text parsing (encoding/json)"},
	})
	reg(&Property{
		ID: "C16", Pkgs: []string{"encoding/shp"}, Level: "model_checking",
		Opts: []HarnessOpt{{Prefix: "VH_C16_", IfConv: true}},
		Rule: "one evaluation = one explored path (geometry type, part/ring/vertex counts, closedness of each ring) with all coordinates free 64-bit patterns; non-trivial = path ends with all assertions discharged",
		Bounds: map[string]string{
			"coordinates": "all 2^64 bit patterns per coordinate",
			"shapes":      "1..3 parts/rings x 1..3 vertices (4 for single-part types)",
		},
		Assumptions: []string{"go-shp's file writer and reader return the shape values they are given (identity on Parts/Points); NewPolyLine/flatten/BBox of go-shp are executed from their real SSA"},
		Outside:     []string{"shapefile/DBF files, record order and number, all attribute clauses (integers, strings <=50 bytes, floats to 10 decimals, tag/name matching): they run through os files, go-shp's DBF code and reflect over user structs"},
	})
	projMerge := []string{}
	for _, f := range []string{"adjust_lon", "adjust_lat", "sign", "asinz", "phi2z", "imlfn", "mlfn", "msfnz", "tsfnz", "qsfnz", "e0fn", "e1fn", "e2fn", "e3fn", "aeaPhi1z", "srat", "sinh", "cosh", "tanh"} {
		projMerge = append(projMerge, ModPath+"/proj."+f)
	}
	for _, f := range []string{"geodetic_to_geocentric", "geocentric_to_geodetic", "geocentric_to_wgs84", "geocentric_from_wgs84"} {
		projMerge = append(projMerge, "(*"+ModPath+"/proj.datum)."+f)
	}
	for _, f := range []string{"TMerc", "LCC", "AEA", "Merc", "EqdC", "UTM", "Krovak", "LongLat"} {
		// forward ($1) and inverse ($2) closures of each projection
		projMerge = append(projMerge, ModPath+"/proj."+f+"$1", ModPath+"/proj."+f+"$2")
	}
	reg(&Property{
		QuickBoundsOnly: true,
		ID: "C10", Pkgs: []string{".", "proj"}, Level: "model_checking",
		Rule: "one evaluation = one explored path (geometry shape x index of the failing vertex, or SR pair x call history); non-trivial = path ends with all assertions discharged",
		Opts: []HarnessOpt{{Prefix: "VH_C10_", IfConv: true, MaxUnwind: 40, QuickBoundsOnly: true}, {Prefix: "VH_C10_history", Mode: "U", IfConv: true, MaxUnwind: 60, MaxSteps: 50_000_000, Merge: projMerge},
			{Prefix: "VH_C10_state", Mode: "U", IfConv: true, MaxUnwind: 60, MaxSteps: 50_000_000, Merge: projMerge, ThoroughOnly: true},
			{Prefix: "VH_C10_state_00", Mode: "U", IfConv: true, MaxUnwind: 60, MaxSteps: 50_000_000, Merge: projMerge},
			{Prefix: "VH_C10_state_01", Mode: "U", IfConv: true, MaxUnwind: 60, MaxSteps: 50_000_000, Merge: projMerge},
			{Prefix: "VH_C10_state_07", Mode: "U", IfConv: true, MaxUnwind: 60, MaxSteps: 50_000_000, Merge: projMerge},
			{Prefix: "VH_C10_state_09", Mode: "U", IfConv: true, MaxUnwind: 60, MaxSteps: 50_000_000, Merge: projMerge},
			{Prefix: "VH_C10_history_02", Mode: "U", IfConv: true, MaxUnwind: 60, MaxSteps: 50_000_000, Merge: projMerge, ThoroughOnly: true},
			{Prefix: "VH_C10_history_03", Mode: "U", IfConv: true, MaxUnwind: 60, MaxSteps: 50_000_000, Merge: projMerge, ThoroughOnly: true},
			{Prefix: "VH_C10_history_04", Mode: "U", IfConv: true, MaxUnwind: 60, MaxSteps: 50_000_000, Merge: projMerge, ThoroughOnly: true},
			{Prefix: "VH_C10_history_05", Mode: "U", IfConv: true, MaxUnwind: 60, MaxSteps: 50_000_000, Merge: projMerge, ThoroughOnly: true},
			{Prefix: "VH_C10_history_06", Mode: "U", IfConv: true, MaxUnwind: 60, MaxSteps: 50_000_000, Merge: projMerge, ThoroughOnly: true},
			{Prefix: "VH_C10_history_08", Mode: "U", IfConv: true, MaxUnwind: 60, MaxSteps: 50_000_000, Merge: projMerge, ThoroughOnly: true},
			{Prefix: "VH_C10_history_10", Mode: "U", IfConv: true, MaxUnwind: 60, MaxSteps: 50_000_000, Merge: projMerge, ThoroughOnly: true}},
		Bounds: map[string]string{
			"geometries": "all eight types, <=2 members x <=2 vertices, collections nested to depth 1 (2 thorough); transformer failing at every vertex index or never",
			"state step": "one call with a free input from the state left by one concrete call (quick: pairs 00, 01, 07, 09; thorough: all 11); the state compared is everything reachable from the closure, both SRs and the proj package variables",
			"histories":  "quick: longlat<->merc, axis=neu source (t(p); t(p); u(q); t(q); t(p); fresh t(p)) and longlat+7-parameter datum -> WGS84 (t(p); t(p); fresh t(p)); thorough adds utm->utm, lcc, tmerc/utm with 3- and 7-parameter datums (WGS84 hop), aea in US feet",
		},
		Assumptions: []string{"libm functions are uninterpreted symbols: determinism/history-independence proved for every interpretation"},
		Outside:     []string{"numeric accuracy of the transformers (C08/C09)", "larger geometries"},
	})
	rtMerge := []string{
		ModPath + "/index/rtree.size", ModPath + "/index/rtree.intersect", ModPath + "/index/rtree.containsRect",
		ModPath + "/index/rtree.minDist", ModPath + "/index/rtree.minMaxDist",
	}
	reg(&Property{
		QuickBoundsOnly: true,
		ID: "C11", Pkgs: []string{"index/rtree"}, Level: "model_checking",
		Rule: "one evaluation = one explored path: a pre-state tree shape, the operation, the heuristic outcomes (seeds, next entry, group, subtree chosen) with all boxes free grid values; non-trivial = path ends with every invariant assertion discharged",
		Opts: []HarnessOpt{
			{Prefix: "VH_C11_", IfConv: true, Merge: rtMerge, MaxUnwind: 40, MaxSteps: 20_000_000},
			{Prefix: "VH_C11_contract_", Mode: "G", IfConv: true, Merge: rtMerge, MaxUnwind: 40, MaxSteps: 20_000_000},
		},
		Hooks: []HookSpec{{File: "index/rtree/rtree.go", Funcs: []string{"pickSeeds", "pickNext", "assignGroup", "chooseNode"}}},
		Bounds: map[string]string{
			"parameters": "(MinChildren, MaxChildren) = (2, 4)",
			"pre-states": "height 1: root leaf with 0..4 entries; height 2: 2..3 leaves (one of size 1..4, the others of one common size); height 3: two inner nodes of two leaves; every box any box of non-NaN doubles (Min <= Max)",
			"step":       "one Insert (new or duplicate object) or one Delete (stored at any position, or absent); plus a history of 5(6) inserts, complete drain and refill",
		},
		Assumptions: []string{"one-step induction: the pre-state family is assumed to cover the reachable well-formed trees of these shapes (the history harness gives reachability witnesses)", "the area heuristics (pickSeeds, pickNext, assignGroup, chooseNode) are replaced by nondeterministic contracts through hooks in an overlay copy of rtree.go generated from the current source; the contract harnesses prove on the integer grid that the real functions refine them"},
		Outside:     []string{"other branching parameters", "taller trees", "a leaf split that overflows a non-root parent as well (double split): 480^2 heuristic outcomes per shape"},
	})
	reg(&Property{
		ID: "C12", Pkgs: []string{"index/rtree"}, Level: "model_checking",
		Rule: "one evaluation = one explored path (tree shape, sort order of branches, pruning and insertion decisions) with all boxes and the query point free grid values; non-trivial = path ends with all assertions discharged",
		Opts: []HarnessOpt{
			{Prefix: "VH_C12_", Mode: "G", IfConv: true, Merge: rtMerge, MaxUnwind: 40, MaxSteps: 20_000_000, TimeoutMs: 180_000},
			{Prefix: "VH_C12_knn_h2_wide", Mode: "G", IfConv: true, Merge: rtMerge, MaxUnwind: 40, MaxSteps: 20_000_000, TimeoutMs: 600_000, ThoroughOnly: true, QuickBoundsOnly: true},
			{Prefix: "VH_C12_knn_h2", Mode: "G", IfConv: true, Merge: rtMerge, MaxUnwind: 40, MaxSteps: 20_000_000, TimeoutMs: 180_000, QuickBoundsOnly: true},
			{Prefix: "VH_C12_nn", Mode: "G", IfConv: true, Merge: rtMerge, MaxUnwind: 40, MaxSteps: 20_000_000, TimeoutMs: 180_000, QuickBoundsOnly: true},
		},
		Hooks: []HookSpec{{File: "index/rtree/rtree.go", Funcs: []string{"pickSeeds", "pickNext", "assignGroup", "chooseNode"}}},
		Bounds: map[string]string{
			"trees": "well-formed trees of height 1 (1..3(4) entries) and height 2 (2 leaves x 1..2 entries; thorough adds 3 leaves), boxes on the signed 2-bit (quick) / 3-bit (thorough) integer grid, query point on the 3-bit / 4-bit grid",
			"k":     "1..3",
		},
		Assumptions: []string{"G mode: squared distances exact; math.Sqrt results are only compared (Lemma S: distinct integers have distinct, ordered rounded roots)", "sort.Sort executed from its real SSA"},
		Outside:     []string{"taller trees, other branching parameters, larger coordinates", "trees are arbitrary well-formed pre-states (a superset of the reachable ones)"},
	})
	reg(&Property{
		QuickBoundsOnly: true,
		ID: "C13", Pkgs: []string{"."}, Level: "model_checking",
		Rule: "one evaluation = one explored path (vertex count, outcome of every distance test and crossing test) with all coordinates and the tolerance free grid values; non-trivial = path ends with all assertions discharged",
		Opts: []HarnessOpt{{Prefix: "VH_C13_", Mode: "G", IfConv: true, UnwindIsViolation: true, MaxUnwind: 60, MaxSteps: 400_000,
			Merge: []string{ModPath + ".findIntersection", ModPath + ".dot", ModPath + ".pointSubtract", "(" + ModPath + ".Point).Equals"}}},
		Bounds: map[string]string{
			"grid":     "integers of 3 (quick) / 4 (thorough) signed bits; tolerance a non-negative grid value",
			"vertices": "0..4 (5 thorough) for the structural clauses; 4 for simplicity with all vertices free, 5 with the two ends of one candidate chord fixed (either traversal direction); termination = the loop exits within the unwinding/step budget",
		},
		Assumptions: []string{
			"G mode: the perpendicular-foot case of distPointToSegment involves arithmetic on a rounded quotient; that comparison is over-approximated (both outcomes explored), so the structural clauses hold whichever vertices are dropped; the tolerance clause is decided exactly only where every distance test was exact",
			"simplicity clause: input in general position (no three vertices collinear), as the property states",
		},
		Outside: []string{"more vertices, larger coordinates"},
	})
	reg(&Property{
		ID: "C03", Pkgs: []string{"."}, Level: "model_checking",
		Rule: "one evaluation = one explored path (shape, closed/unclosed spelling, kernel outcomes) with all coordinates free grid values (free doubles for length/buffer); non-trivial = path ends with all assertions discharged",
		Opts: []HarnessOpt{
			{Prefix: "VH_C03_", Mode: "G", Merge: geomMerge, IfConv: true, MaxUnwind: 16},
			{Prefix: "VH_C03_centroid", Mode: "R", Merge: geomMerge, IfConv: true, MaxUnwind: 16},
			{Prefix: "VH_C03_area", Mode: "R", Merge: geomMerge, IfConv: true, MaxUnwind: 16},
			{Prefix: "VH_C03_lemma", Mode: "R", IfConv: true},
			{Prefix: "VH_C03_area_hole_fixed_shell", Mode: "G", Merge: geomMerge, IfConv: true, MaxUnwind: 16},
			{Prefix: "VH_C03_area_with_hole", Mode: "G", Merge: geomMerge, IfConv: true, MaxUnwind: 16, ThoroughOnly: true, QuickBoundsOnly: true, TimeoutMs: 300_000},
			{Prefix: "VH_C03_centroid_with_hole", Mode: "R", Merge: geomMerge, IfConv: true, MaxUnwind: 16, ThoroughOnly: true, QuickBoundsOnly: true, TimeoutMs: 300_000},
			{Prefix: "VH_C03_length", Mode: "F"},
			{Prefix: "VH_C03_buffer", Mode: "F"},
		},
		Bounds: map[string]string{
			"area":     "triangular shells of either winding, any rotation, closed or unclosed; a fixed convex pentagon shell in all 20 spellings (start vertex, winding, closed or not) with a unit triangular hole at a free grid position strictly inside; two disjoint members; integer grid of 4 (5) signed bits; the equality Area == |shell| - |hole| is decided as an identity in real arithmetic (every operation involved is exact in float64 on this grid)",
			"centroid": "closed triangles, with one hole of opposite winding; real arithmetic (every float operation exact), result compared as a polynomial identity",
			"length":   "<=5 vertices, all doubles: Length/Buffer compared as terms with libm functions uninterpreted",
			"distance": "<=4 vertices on the 3-bit grid",
		},
		Assumptions: []string{
			"R mode (centroid): float operations are taken as exact real operations; the claim is the algebraic identity, agreement of the FP64 result is the property's 'relative tolerance'",
			"Length/Buffer: the oracle sums in the same left-to-right order; math.Hypot/Cos/Sin are uninterpreted",
		},
		Outside: []string{"polygons with more vertices", "arbitrary floats for Area (rounding of the sums)", "the perpendicular-foot case of distPointToSegment (arithmetic on a rounded quotient)"},
	})
	polyclipGeom := ""
	if out, err := exec.Command("go", "env", "GOMODCACHE").Output(); err == nil {
		polyclipGeom = filepath.Join(strings.TrimSpace(string(out)), "github.com/ctessum/polyclip-go@v1.1.0", "geom.go")
	}
	clipHook := []HookSpec{{File: polyclipGeom, Funcs: []string{"Construct"}, Exported: true,
		Decls: "// set by the verification harness: replaces the clipper by a recording stub\nvar VHook_Construct func(p Polygon, operation Op, clipping Polygon) Polygon"}}
	RootHooks = clipHook
	reg(&Property{
		ID: "C01", Pkgs: []string{"."}, Level: "model_checking",
		Opts: []HarnessOpt{{Prefix: "VH_C01_", IfConv: true, MaxUnwind: 40, Merge: geomMerge}},
		Rule: "one evaluation = one explored path (receiver/argument types, operation, ring and vertex counts, shortcut taken) with all coordinates free non-NaN doubles; non-trivial = path ends with all assertions discharged",
		Bounds: map[string]string{
			"operands": "Polygon (<=2 rings x <=3 vertices), MultiPolygon (2 members), *Bounds, in both positions; all four operations",
			"clipper":  "replaced by a recording stub returning <=2 contours x <=3 vertices (marshalling), or the real polyclip code on operands it answers without sweeping (one operand empty, or bounding boxes disjoint)",
		},
		Assumptions: []string{
			"reduced scope: the sweep-line construction inside polyclip-go (a dependency) is not executed; the claim is that ctessum/geom sends every ring of both operands with the right operation, returns every contour closed, and that the *Bounds shortcuts and polyclip's trivial cases are pointwise correct",
			"pointwise clause: membership of the test point in the polygonal argument is an unconstrained boolean implied to lie in the argument's bounding box",
		},
		Outside: []string{"correctness of the sweep for operands whose bounding boxes overlap (event queue, intersections, connector): pointer-rich sorting code with FP divisions in path conditions, in a dependency"},
	})
	reg(&Property{
		ID: "C14", Pkgs: []string{"."}, Level: "model_checking",
		Opts: []HarnessOpt{{Prefix: "VH_C14_", IfConv: true, MaxUnwind: 40, Merge: geomMerge},
			{Prefix: "VH_C14_clip_no_shortcut", Mode: "G", IfConv: true, MaxUnwind: 40, Merge: geomMerge}},
		Rule: "one evaluation = one explored path (line/multi-line, polygonal type, counts) with all coordinates free non-NaN doubles; non-trivial = path ends with all assertions discharged",
		Bounds: map[string]string{
			"lines":    "LineString <=3 vertices, MultiLineString of two members; polygonal argument as in C01",
			"clipper":  "recording stub returning <=2 chains x <=3 vertices, or the real polyclip code where it answers without sweeping",
			"shortcut": "no_shortcut: two-vertex line with free half-integer coordinates (4-bit) against a fixed square with a square hole, mode G",
		},
		Assumptions: []string{"reduced scope: Clip returns exactly the chains the clipper produces (closing vertex appended and stripped again), having sent every member line and every ring; where the pieces lie is the dependency's sweep"},
		Outside:     []string{"position and total length of the clipped pieces for lines that enter the polygon's bounding box (polyclip's CLIPLINE sweep)"},
	})
	reg(&Property{
		QuickBoundsOnly: true,
		ID: "C18", Pkgs: []string{"encoding/osm"}, Level: "model_checking",
		Opts: []HarnessOpt{
			{Prefix: "VH_C18_", Workers: 2, MaxUnwind: 40, MaxSteps: 5_000_000, Preempt: [2]int{2, 3}},
			{Prefix: "VH_C18_extract_bounds", Workers: 2, MaxUnwind: 40, MaxSteps: 5_000_000, Preempt: [2]int{1, 2}, Merge: []string{"(*" + ModPath + ".Bounds).Overlaps"}},
			{Prefix: "VH_C18_filter", Workers: 2, MapOrders: true, MaxUnwind: 40},
		},
		Rule: "one evaluation = one explored path = one document template with one tag assignment and ONE COMPLETE SCHEDULE of the main goroutine and the two workers (every choice of the next runnable goroutine at every lock acquisition, channel operation, goroutine start/exit and Wait); non-trivial = path runs to the end with all assertions discharged",
		Bounds: map[string]string{
			"workers":   "GOMAXPROCS modelled as 2 (two workers plus the feeding goroutine)",
			"documents": "seven templates of 2-3 objects (node/way order both ways, shared node, relation of a way, relations referring to each other, a node and a way with the same number as members of one relation in either order), tags case-split, node positions free doubles against a free box",
			"schedules": "all interleavings with at most 2 (quick) / 3 (thorough) preemptive context switches (switches when the running goroutine blocks or ends are free), switch points at synchronisation operations only (critical sections are atomic: every shared map access in extract.go is under its mutex)",
		},
		Assumptions: []string{"sync.Mutex/RWMutex, channels, errgroup.Go/Wait and GOMAXPROCS are modelled by the scheduler (3.3); a scanner and a ReadSeeker written in the harness stand for the XML/PBF readers"},
		Outside:     []string{"XML/PBF parsing", "larger documents, more than two workers", "data races (accesses outside any lock) are not searched for"},
	})
	reg(&Property{
		ID: "C20", Pkgs: []string{"proj"}, Level: "translation_validation",
		Opts: []HarnessOpt{{Prefix: "VH_C20_", Mode: "U", IfConv: true, MaxUnwind: 60, MaxSteps: 50_000_000}},
		Rule: "one evaluation = one explored path (projection, linear unit, number of TOWGS84 terms, outcome of the ellipsoid/datum tests) with every numeric parameter a free finite double; the two programs compared are the PROJ.4 parser and the WKT parser (each followed by DeriveConstants); non-trivial = path ends with every field comparison discharged",
		Bounds: map[string]string{
			"projections": "Mercator_1SP, Lambert_Conformal_Conic_2SP, Albers_Conic_Equal_Area, Equidistant_Conic, Transverse_Mercator, and geographic",
			"units":       "metre, foot (thorough: US survey foot)",
			"datum":       "spheroid (a, 1/f) symbolic; TOWGS84 with 0, 3 or 7 symbolic terms",
		},
		Assumptions: []string{
			"numeric literals are plain decimals that strconv.ParseFloat maps back to the float (placeholder tokens in the definition strings)",
			"mode U: field equality holds for every interpretation of float arithmetic; equal fields are a sufficient condition for the transformers to agree exactly",
		},
		Outside: []string{"(*shp.Decoder).SR (reads a .prj file)", "definitions naming a datum or ellipsoid by name"},
	})
	reg(&Property{
		ID: "C19", Pkgs: []string{"route"}, Level: "model_checking",
		Opts: []HarnessOpt{{Prefix: "VH_C19_", Mode: "G", IfConv: true, MaxUnwind: 60, MaxSteps: 50_000_000, Merge: rtMerge}},
		Rule: "one evaluation = one explored path (topology, minimisation option, speeds, every comparison made by the R-tree, the heap and the search) with every link length a free grid value; non-trivial = path ends with all assertions discharged",
		Bounds: map[string]string{
			"topologies": "chain of 3 nodes, triangle with a direct link, detour rectangle (7-24-25: S-M-N-T plus the direct link S-T, links added in two orders), two components; concrete node positions",
			"links":      "axis-aligned staircases of symbolic riser height (signed 3-bit integer grid, half-units of 4 bits for the detour, >= 0): length span + 2h exact; speeds in {1,2} (thorough {1,2,4,8})",
		},
		Assumptions: []string{"G mode: Hypot(x, 0) = |x| exactly; link lengths and times are exact", "gonum path.AStar, container/heap, sort and the route package's R-trees are executed from their real SSA"},
		Outside:     []string{"arbitrary link geometries and topologies", "query points away from the nodes"},
	})
	reg(&Property{
		ID: "C09", Pkgs: []string{"proj"}, Level: "translation_validation",
		Opts: []HarnessOpt{{Prefix: "VH_C09_", Mode: "U", IfConv: false, MaxUnwind: 80, MaxSteps: 200_000_000}},
		Rule: "one evaluation = one explored path of a pair (Go kernel, proj4js original): the JavaScript source is parsed and evaluated symbolically by an ES5-subset interpreter written in Go (itself executed by the symbolic executor), on the same symbolic arguments as the Go function; non-trivial = path ends with the equality discharged",
		Bounds: map[string]string{
			"pairs": "common.go kernels against proj4js-2.3.12/lib/common/*.js: e0fn e1fn e2fn e3fn sign adjust_lon adjust_lat asinz msfnz tsfnz qsfnz mlfn phi2z imlfn; the ellipsoid, datum, prime-meridian and unit tables against lib/constants/*.js; TMerc (constructor, forward, inverse), Merc (forward, inverse), forward of LCC/AEA/EqdC and inverse of EqdC against projections/*.js (init/forward/inverse on a `this` object carrying the same parameter values); SR.getDatum, geocentric_to_wgs84, geocentric_from_wgs84, geodetic_to_geocentric against datum.js",
			"loops": "iteration loops unrolled to the code's own caps (phi2z 16, imlfn 15)",
			"parameters": "every projection parameter a free finite non-zero double, sphere and ellipsoid case; TOWGS84 with 0, 3 or 7 free terms; positions free (Mercator forward: within +-90/+-180 degrees; geodetic_to_geocentric: |lat| <= pi/2, non-zero height)",
		},
		Assumptions: []string{
			"mode U: +,-,*,/ and Math.*/math.* are the same uninterpreted functions on both sides (JS numbers and Go float64 are both IEEE doubles); x*1 = x/1 = x",
			"Mercator: the eccentricity stored in the SR is the value merc.js derives from b/a",
			"failure signalling (Go error vs JS null / number / -9999 / NaN coordinate) is compared as a candidate: reported when the native run of the same input shows the mismatch",
		},
		Outside: []string{"inverses of LCC and AEA, geocentric_to_geodetic (not decided within 5 minutes each), utm, krovak, longlat, deriveConstants.js, datum_transform.js, transform.js", "zero-valued parameters (proj4js treats them as absent)", "the 0.1 mm / 5 mm numeric agreement as such (libm-dependent; no SMT theory decides it)"},
	})
}
