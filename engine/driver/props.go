package driver

// Properties is the registry of checks; see DESIGN.md section 4.
var Properties = map[string]*Property{}

func reg(p *Property) { Properties[p.ID] = p }

func init() {
	reg(&Property{
		ID: "C04", Pkgs: []string{"."}, Level: "model_checking",
		Rule: "one evaluation = one explored path of a harness (a shape: member/vertex counts, nesting) with every coordinate a free 64-bit pattern; non-trivial = path runs to the end of the harness with all assertions discharged by the solver",
		Bounds: map[string]string{
			"coordinates": "all float64 bit patterns except NaN (-0, +-Inf, subnormals included)",
			"shapes":      "<=3 members per level x <=3 vertices, nesting depth <=2 (quick: <=2/3)",
		},
		Assumptions: []string{"math.Min/Max modelled by their documented special-case table (verified against the Go implementation by native trace conformance)"},
		Outside:     []string{"member counts beyond the bound", "NaN coordinates (Bounds of NaN is unspecified)"},
	})
	reg(&Property{
		ID: "C05", Pkgs: []string{"encoding/wkb", "encoding/hex"}, Level: "model_checking",
		Rule: "one evaluation = one explored path (a geometry shape x byte order x per-element order choice) with all coordinates free 64-bit patterns; non-trivial = path ends with every assertion discharged",
		Bounds: map[string]string{
			"coordinates": "all 2^64 bit patterns per coordinate (NaN payloads, -0, Inf)",
			"counts":      "0..2 members per level (thorough 0..3 for flat types), collections nested to depth 2",
			"byte order":  "both for encode; independent per nested element for decode",
		},
		Assumptions: []string{
			"encoding/binary.Read/Write modelled by contract: fixed-size values are read/written as exactly their size in the given byte order via io.ReadFull / Writer.Write (bytes.Buffer, io.ReadFull are executed from their real SSA)",
		},
		Outside: []string{"member counts above the bound", "encoding/binary internals"},
	})
}
