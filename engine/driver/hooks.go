package driver

import (
	"bytes"
	"fmt"
	"go/ast"
	"go/parser"
	"go/printer"
	"go/token"
	"os"
	"path/filepath"
	"strings"
)

// HookSpec names functions of one /repo source file that get a prologue
//
//	if vHook_<name> != nil { return vHook_<name>(recv, params...) }
//
// in an overlay copy generated from the current source on every run. The
// harness file declares the vHook_ variables; a harness that sets one runs
// the function's nondeterministic contract (a summary, DESIGN.md 3.7)
// instead of its body, both under the symbolic executor and natively.
type HookSpec struct {
	File  string // /repo-relative, or absolute (a dependency in the module cache)
	Funcs []string
	// Exported makes the hook variables exported (VHook_<name>) and declares
	// them in an extra file of the hooked package with the given signatures,
	// so that a harness in another package can set them.
	Exported bool
	Decls    string // Go source of the var declarations (package clause added)
}

func rewriteWithHooks(spec HookSpec, scratch string) (virtual, real string, err error) {
	src := spec.File
	if !filepath.IsAbs(src) {
		src = filepath.Join(RepoDir, spec.File)
	}
	fset := token.NewFileSet()
	f, err := parser.ParseFile(fset, src, nil, parser.ParseComments)
	if err != nil {
		return "", "", err
	}
	want := map[string]bool{}
	for _, n := range spec.Funcs {
		want[n] = true
	}
	found := map[string]bool{}
	for _, d := range f.Decls {
		fd, ok := d.(*ast.FuncDecl)
		if !ok || !want[fd.Name.Name] || fd.Body == nil {
			continue
		}
		found[fd.Name.Name] = true
		hook := "vHook_" + fd.Name.Name
		if spec.Exported {
			hook = "VHook_" + fd.Name.Name
		}
		var args []string
		if fd.Recv != nil {
			for _, fl := range fd.Recv.List {
				for _, n := range fl.Names {
					args = append(args, n.Name)
				}
			}
		}
		for _, fl := range fd.Type.Params.List {
			for _, n := range fl.Names {
				args = append(args, n.Name)
			}
		}
		call := fmt.Sprintf("%s(%s)", hook, strings.Join(args, ", "))
		var stmt string
		if fd.Type.Results != nil && len(fd.Type.Results.List) > 0 {
			stmt = fmt.Sprintf("if %s != nil { return %s }", hook, call)
		} else {
			stmt = fmt.Sprintf("if %s != nil { %s; return }", hook, call)
		}
		expr, err := parser.ParseFile(token.NewFileSet(), "", "package p\nfunc _() {\n"+stmt+"\n}", 0)
		if err != nil {
			return "", "", err
		}
		st := expr.Decls[0].(*ast.FuncDecl).Body.List[0]
		fd.Body.List = append([]ast.Stmt{st}, fd.Body.List...)
	}
	for n := range want {
		if !found[n] {
			return "", "", fmt.Errorf("hook target %s not found in %s (renamed?)", n, spec.File)
		}
	}
	var buf bytes.Buffer
	if err := (&printer.Config{Mode: printer.UseSpaces | printer.TabIndent, Tabwidth: 8}).Fprint(&buf, token.NewFileSet(), f); err != nil {
		return "", "", err
	}
	if spec.Decls != "" {
		buf.WriteString("\n" + spec.Decls + "\n")
	}
	out := filepath.Join(scratch, "hooked", strings.ReplaceAll(strings.TrimPrefix(spec.File, "/"), "/", "_"))
	os.MkdirAll(filepath.Dir(out), 0o755)
	if err := os.WriteFile(out, buf.Bytes(), 0o644); err != nil {
		return "", "", err
	}
	return src, out, nil
}


// hookDecls writes the declaration file of exported hooks next to the hooked
// source (as an overlay entry).
func hookDecls(spec HookSpec, scratch string) (virtual, real string, err error) {
	src := spec.File
	if !filepath.IsAbs(src) {
		src = filepath.Join(RepoDir, spec.File)
	}
	b, err := os.ReadFile(src)
	if err != nil {
		return "", "", err
	}
	m := pkgClause.FindSubmatch(b)
	if m == nil {
		return "", "", fmt.Errorf("no package clause in %s", src)
	}
	out := filepath.Join(scratch, "hooked", "decl_"+strings.ReplaceAll(strings.TrimPrefix(spec.File, "/"), "/", "_"))
	os.MkdirAll(filepath.Dir(out), 0o755)
	if err := os.WriteFile(out, []byte("package "+string(m[1])+"\n\n"+spec.Decls+"\n"), 0o644); err != nil {
		return "", "", err
	}
	return filepath.Join(filepath.Dir(src), "zz_verif_hookdecl.go"), out, nil
}
