// Package driver loads /repo with the harness overlay, runs harnesses through
// the symbolic executor, replays findings natively and writes evidence.
package driver

import (
	"bytes"
	"crypto/sha256"
	"encoding/json"
	"fmt"
	"os"
	"os/exec"
	"path/filepath"
	"regexp"
	"sort"
	"strings"
	"time"

	"golang.org/x/tools/go/packages"
	"golang.org/x/tools/go/ssa"
	"golang.org/x/tools/go/ssa/ssautil"
)

const (
	RepoDir  = "/repo"
	VerifDir = "/verif"
	ModPath  = "github.com/ctessum/geom"
)

type Loaded struct {
	Prog    *ssa.Program
	Pkgs    map[string]*ssa.Package // by import path
	Scratch string
	Overlay map[string]string // virtual path in /repo -> real file
	LoadS   float64
	SrcHash map[string]string
}

var pkgClause = regexp.MustCompile(`(?m)^package\s+(\w+)`)

// goEnv returns the environment for every go invocation: offline, local
// toolchain, and a scratch copy of go.mod/go.sum so /repo is never written.
func goEnv(scratch string) []string {
	env := os.Environ()
	env = append(env, "GOFLAGS=-mod=mod -modfile="+filepath.Join(scratch, "go.mod"), "GOPROXY=off", "GOSUMDB=off", "GOTOOLCHAIN=local", "CGO_ENABLED=0")
	return env
}

func NewScratch() (string, error) {
	base := os.Getenv("VERIF_SCRATCH")
	if base == "" {
		base = os.TempDir()
	}
	d, err := os.MkdirTemp(base, "gosmt-")
	if err != nil {
		return "", err
	}
	for _, f := range []string{"go.mod", "go.sum"} {
		b, err := os.ReadFile(filepath.Join(RepoDir, f))
		if err != nil {
			return "", err
		}
		if err := os.WriteFile(filepath.Join(d, f), b, 0o644); err != nil {
			return "", err
		}
	}
	return d, nil
}

// BuildOverlay maps every harness file /verif/harness/<rel>/zz_verif_*.go to
// /repo/<rel>/..., and adds the runtime file with the right package clause.
func BuildOverlay(scratch string, rels []string) (map[string]string, error) {
	ov := map[string]string{}
	rt, err := os.ReadFile(filepath.Join(VerifDir, "harness", "rt.go.tmpl"))
	if err != nil {
		return nil, err
	}
	for _, rel := range rels {
		hrel := rel
		if rel == "." || rel == "" {
			hrel = "_root"
		}
		dir := filepath.Join(VerifDir, "harness", hrel)
		ents, err := os.ReadDir(dir)
		if err != nil {
			return nil, err
		}
		pkgName := ""
		for _, e := range ents {
			if !strings.HasPrefix(e.Name(), "zz_verif_") || !strings.HasSuffix(e.Name(), ".go") {
				continue
			}
			real := filepath.Join(dir, e.Name())
			ov[filepath.Join(RepoDir, rel, e.Name())] = real
			if pkgName == "" {
				b, _ := os.ReadFile(real)
				if m := pkgClause.FindSubmatch(b); m != nil {
					pkgName = string(m[1])
				}
			}
		}
		if pkgName == "" {
			return nil, fmt.Errorf("no harness files in %s", dir)
		}
		rtDir := filepath.Join(scratch, "rt", rel)
		os.MkdirAll(rtDir, 0o755)
		rtFile := filepath.Join(rtDir, "zz_verif_rt.go")
		if err := os.WriteFile(rtFile, bytes.Replace(rt, []byte("package PKG"), []byte("package "+pkgName), 1), 0o644); err != nil {
			return nil, err
		}
		ov[filepath.Join(RepoDir, rel, "zz_verif_rt.go")] = rtFile
	}
	return ov, nil
}

// Load type-checks and builds SSA for the given /repo-relative package dirs
// from the current working tree plus the harness overlay.
func Load(rels []string, hooks ...HookSpec) (*Loaded, error) {
	t0 := time.Now()
	scratch, err := NewScratch()
	if err != nil {
		return nil, err
	}
	ov, err := BuildOverlay(scratch, rels)
	if err != nil {
		return nil, err
	}
	for _, h := range hooks {
		v, r, err := rewriteWithHooks(h, scratch)
		if err != nil {
			return nil, err
		}
		ov[v] = r
	}
	overlay := map[string][]byte{}
	for v, r := range ov {
		b, err := os.ReadFile(r)
		if err != nil {
			return nil, err
		}
		overlay[v] = b
	}
	var pats []string
	for _, r := range rels {
		if r == "." || r == "" {
			pats = append(pats, ModPath)
		} else {
			pats = append(pats, ModPath+"/"+r)
		}
	}
	cfg := &packages.Config{
		Mode:    packages.LoadAllSyntax,
		Dir:     RepoDir,
		Env:     goEnv(scratch),
		Overlay: overlay,
	}
	pkgs, err := packages.Load(cfg, pats...)
	if err != nil {
		return nil, err
	}
	var errs []string
	packages.Visit(pkgs, nil, func(p *packages.Package) {
		for _, e := range p.Errors {
			errs = append(errs, e.Error())
		}
	})
	if len(errs) > 0 {
		if len(errs) > 10 {
			errs = errs[:10]
		}
		return nil, fmt.Errorf("package load errors (harness no longer compiles against the tree?):\n%s", strings.Join(errs, "\n"))
	}
	prog, spkgs := ssautil.AllPackages(pkgs, ssa.InstantiateGenerics)
	prog.Build()
	l := &Loaded{Prog: prog, Pkgs: map[string]*ssa.Package{}, Scratch: scratch, Overlay: ov, SrcHash: map[string]string{}}
	for _, sp := range spkgs {
		if sp != nil {
			l.Pkgs[sp.Pkg.Path()] = sp
		}
	}
	for _, sp := range prog.AllPackages() {
		l.Pkgs[sp.Pkg.Path()] = sp
	}
	l.LoadS = time.Since(t0).Seconds()
	return l, nil
}

func (l *Loaded) Cleanup() {
	if l.Scratch != "" {
		os.RemoveAll(l.Scratch)
	}
}

func (l *Loaded) Pkg(rel string) *ssa.Package {
	p := ModPath
	if rel != "." && rel != "" {
		p += "/" + rel
	}
	return l.Pkgs[p]
}

// FuncHash returns a short hash of the source text of the named functions'
// files, so evidence ties the encoding to the tree it was generated from.
func FileHash(path string) string {
	b, err := os.ReadFile(path)
	if err != nil {
		return "?"
	}
	h := sha256.Sum256(b)
	return fmt.Sprintf("%x", h[:6])
}

// ---- native replay ----

type ReplayResult struct {
	Confirmed bool
	Kind      string // assert | panic | hang | diverged | clean | build-failed
	Output    string
	Dir       string
}

// Replay runs harness fn natively under the tape, in package rel, using go
// test with an overlay. dir receives tape.json, the test file and overlay.json.
func (l *Loaded) Replay(rel, harness string, tape interface{}, dir string, timeout time.Duration) (*ReplayResult, error) {
	if err := os.MkdirAll(dir, 0o755); err != nil {
		return nil, err
	}
	tb, _ := json.Marshal(tape)
	tapePath := filepath.Join(dir, "tape.json")
	if err := os.WriteFile(tapePath, tb, 0o644); err != nil {
		return nil, err
	}
	pkgName := ""
	for v, r := range l.Overlay {
		if filepath.Dir(v) == filepath.Join(RepoDir, rel) && strings.HasSuffix(v, "zz_verif_rt.go") {
			b, _ := os.ReadFile(r)
			if m := pkgClause.FindSubmatch(b); m != nil {
				pkgName = string(m[1])
			}
		}
	}
	test := fmt.Sprintf(`package %s

import "testing"

func TestVReplay(t *testing.T) {
	vLoadTape(%q)
	%s()
	vReplayDone()
}
`, pkgName, tapePath, harness)
	testPath := filepath.Join(dir, "zz_verif_replay_test.go")
	if err := os.WriteFile(testPath, []byte(test), 0o644); err != nil {
		return nil, err
	}
	// the runtime file is copied next to the replay so the directory is self-contained
	ov := map[string]string{}
	for v, r := range l.Overlay {
		if strings.HasSuffix(v, "zz_verif_rt.go") {
			b, _ := os.ReadFile(r)
			rrel, _ := filepath.Rel(RepoDir, filepath.Dir(v))
			rp := filepath.Join(dir, "rt_"+strings.ReplaceAll(rrel, "/", "_")+".go")
			os.WriteFile(rp, b, 0o644)
			ov[v] = rp
			continue
		}
		if strings.Contains(r, l.Scratch) {
			b, _ := os.ReadFile(r)
			rp := filepath.Join(dir, "overlay_"+filepath.Base(r))
			if !strings.HasSuffix(rp, ".go") {
				rp += ".go"
			}
			os.WriteFile(rp, b, 0o644)
			ov[v] = rp
			continue
		}
		ov[v] = r
	}
	ov[filepath.Join(RepoDir, rel, "zz_verif_replay_test.go")] = testPath
	ob, _ := json.MarshalIndent(map[string]interface{}{"Replace": ov}, "", " ")
	ovPath := filepath.Join(dir, "overlay.json")
	os.WriteFile(ovPath, ob, 0o644)
	pkg := "./" + rel
	args := []string{"test", "-vet=off", "-count=1", "-overlay", ovPath, "-v", "-run", "^TestVReplay$", "-timeout", fmt.Sprintf("%ds", int(timeout.Seconds())), pkg}
	readme := fmt.Sprintf("Replay of %s in %s.\ncd /repo && GOFLAGS='-mod=mod -modfile=<copy of go.mod>' GOPROXY=off go %s\n", harness, rel, strings.Join(args, " "))
	os.WriteFile(filepath.Join(dir, "README"), []byte(readme), 0o644)
	cmd := exec.Command("go", args...)
	cmd.Dir = RepoDir
	cmd.Env = append(goEnv(l.Scratch), "GOMEMLIMIT=1GiB")
	var out bytes.Buffer
	cmd.Stdout, cmd.Stderr = &out, &out
	// memory guard for runaway loops
	shell := exec.Command("bash", "-c", "ulimit -v 4000000; exec \"$@\"", "--", "go")
	shell.Args = append(shell.Args, args...)
	shell.Dir, shell.Env, shell.Stdout, shell.Stderr = cmd.Dir, cmd.Env, &out, &out
	done := make(chan error, 1)
	if err := shell.Start(); err != nil {
		return nil, err
	}
	go func() { done <- shell.Wait() }()
	var werr error
	hung := false
	select {
	case werr = <-done:
	case <-time.After(timeout + 60*time.Second):
		shell.Process.Kill()
		hung = true
	}
	o := out.String()
	res := &ReplayResult{Output: tail(o, 4000), Dir: dir}
	switch {
	case strings.Contains(o, "VASSERT-FAIL"):
		res.Kind, res.Confirmed = "assert", true
	case strings.Contains(o, "VASSUME-FALSE") || strings.Contains(o, "VTAPE-") || strings.Contains(o, "VLEMMA-FAIL"):
		res.Kind = "diverged"
	case hung || strings.Contains(o, "test timed out") || strings.Contains(o, "out of memory") || strings.Contains(o, "cannot allocate memory"):
		res.Kind, res.Confirmed = "hang", true
	case strings.Contains(o, "panic:") || strings.Contains(o, "fatal error:"):
		res.Kind, res.Confirmed = "panic", true
	case strings.Contains(o, "VALLOC-EXCEEDED"):
		res.Kind, res.Confirmed = "alloc", true
	case werr == nil:
		res.Kind = "clean"
	case strings.Contains(o, "[build failed]") || strings.Contains(o, "[setup failed]"):
		res.Kind = "build-failed"
	default:
		res.Kind = "clean"
		if werr != nil {
			res.Kind = "failed-other"
		}
	}
	os.WriteFile(filepath.Join(dir, "output.txt"), []byte(res.Output), 0o644)
	return res, nil
}

func tail(s string, n int) string {
	if len(s) <= n {
		return s
	}
	return s[len(s)-n:]
}

func sortedKeys(m map[string]bool) []string {
	var out []string
	for k := range m {
		out = append(out, k)
	}
	sort.Strings(out)
	return out
}
