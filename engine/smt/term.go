// Package smt holds the hash-consed term DAG that the SSA interpreter builds,
// a concrete evaluator for it, and printers that turn it into SMT-LIB2 under
// one of several float interpretations (see DESIGN.md 3.4).
package smt

import (
	"fmt"
	"math"
	"math/bits"
	"strings"
)

type SortKind uint8

const (
	KBool SortKind = iota
	KBV
	KF64
	KInt
	KReal
)

type Sort struct {
	K SortKind
	W int // bit width for KBV
}

var (
	Bool = Sort{K: KBool}
	F64  = Sort{K: KF64}
	Int  = Sort{K: KInt}
	Real = Sort{K: KReal}
)

func BV(w int) Sort { return Sort{K: KBV, W: w} }

func (s Sort) String() string {
	switch s.K {
	case KBool:
		return "Bool"
	case KBV:
		return fmt.Sprintf("(_ BitVec %d)", s.W)
	case KInt:
		return "Int"
	case KReal:
		return "Real"
	}
	return "F64"
}

type Op uint8

const (
	OVar Op = iota
	OConst
	ONot
	OAnd
	OOr
	OIte
	OEq // structural equality on Bool / BV
	// bit-vectors
	OAdd
	OSub
	OMul
	OUDiv
	OURem
	OSDiv
	OSRem
	OBAnd
	OBOr
	OBXor
	OShl
	OLShr
	OAShr
	ONeg
	OBNot
	OULt
	OULe
	OSLt
	OSLe
	OConcat
	OExtract // I=hi J=lo
	OZExt    // to Sort.W
	OSExt
	// floats
	OFFromBits // bv64 -> f64
	OFGrid     // signed bvW -> f64 value k*2^-I
	OFBits     // f64 -> bv64 (canonical NaN)
	OFAdd
	OFSub
	OFMul
	OFDiv
	OFNeg
	OFAbs
	OFSqrt
	OFLt
	OFLe
	OFEq // IEEE ==
	OFIsNaN
	OFIsInf
	OFIsNeg // sign bit set (any class)
	OFFromSInt
	OFFromUInt
	OFToSInt // I = width; Go semantics undefined on overflow: we trap upstream
	OFNextUp // math.Nextafter(x, +Inf)
	OFNextDown
	OUF // uninterpreted function Name(args)
	// order keys: non-NaN doubles as integers (order-isomorphic, -0 = -1, +0 = 0)
	OFFromKey // int -> f64
	OILt
	OILe
	ONative // SMT-LIB operator Name applied to Args (real arithmetic, conversions)
)

var opNames = map[Op]string{
	OVar: "var", OConst: "const", ONot: "not", OAnd: "and", OOr: "or", OIte: "ite", OEq: "=",
	OAdd: "bvadd", OSub: "bvsub", OMul: "bvmul", OUDiv: "bvudiv", OURem: "bvurem", OSDiv: "bvsdiv", OSRem: "bvsrem",
	OBAnd: "bvand", OBOr: "bvor", OBXor: "bvxor", OShl: "bvshl", OLShr: "bvlshr", OAShr: "bvashr", ONeg: "bvneg", OBNot: "bvnot",
	OULt: "bvult", OULe: "bvule", OSLt: "bvslt", OSLe: "bvsle", OConcat: "concat", OExtract: "extract", OZExt: "zext", OSExt: "sext",
	OFFromBits: "f.frombits", OFGrid: "f.grid", OFBits: "f.bits", OFAdd: "f.add", OFSub: "f.sub", OFMul: "f.mul", OFDiv: "f.div",
	OFNeg: "f.neg", OFAbs: "f.abs", OFSqrt: "f.sqrt", OFLt: "f.lt", OFLe: "f.le", OFEq: "f.eq", OFIsNaN: "f.isnan", OFIsInf: "f.isinf",
	OFIsNeg: "f.isneg", OFFromSInt: "f.fromsint", OFFromUInt: "f.fromuint", OFToSInt: "f.tosint", OFNextUp: "f.nextup", OFNextDown: "f.nextdown", OUF: "uf", OFFromKey: "f.fromkey", OILt: "<", OILe: "<=", ONative: "native",
}

func (o Op) String() string { return opNames[o] }

type Term struct {
	ID   int
	Op   Op
	Sort Sort
	Args []*Term
	U    uint64 // constant payload (bool 0/1, bv value, f64 bits)
	Name string // var / uf name
	I, J int
}

func (t *Term) IsConst() bool { return t.Op == OConst }
func (t *Term) IsTrue() bool  { return t.Op == OConst && t.Sort.K == KBool && t.U == 1 }
func (t *Term) IsFalse() bool { return t.Op == OConst && t.Sort.K == KBool && t.U == 0 }

// Int returns the constant as signed integer of its width.
func (t *Term) Int() int64 {
	if t.Sort.K != KBV {
		return int64(t.U)
	}
	return sext(t.U, t.Sort.W)
}

func (t *Term) Float() float64 { return math.Float64frombits(t.U) }

func (t *Term) String() string {
	var sb strings.Builder
	t.str(&sb, 0)
	return sb.String()
}

func (t *Term) str(sb *strings.Builder, depth int) {
	if depth > 6 {
		fmt.Fprintf(sb, "#%d", t.ID)
		return
	}
	switch t.Op {
	case OVar:
		sb.WriteString(t.Name)
	case OConst:
		switch t.Sort.K {
		case KBool:
			fmt.Fprintf(sb, "%v", t.U == 1)
		case KInt:
			fmt.Fprintf(sb, "%d", int64(t.U))
		case KBV:
			fmt.Fprintf(sb, "%d:%d", t.Int(), t.Sort.W)
		case KF64:
			fmt.Fprintf(sb, "%v", t.Float())
		}
	default:
		sb.WriteString("(")
		if t.Op == OUF {
			sb.WriteString(t.Name)
		} else {
			sb.WriteString(t.Op.String())
		}
		if t.Op == OExtract || t.Op == OFGrid {
			fmt.Fprintf(sb, "[%d,%d]", t.I, t.J)
		}
		for _, a := range t.Args {
			sb.WriteString(" ")
			a.str(sb, depth+1)
		}
		sb.WriteString(")")
	}
}

// Ctx owns the hash-cons table. Not safe for concurrent use.
type Ctx struct {
	// NonNaN holds IDs of bv64 variables whose float reading is assumed (in
	// the path condition) not to be NaN; NaN tests on them fold to false.
	NonNaN map[int]bool
	tab   map[string]*Term
	terms []*Term
	Vars  []*Term
	nfree int
}

func NewCtx() *Ctx { return &Ctx{tab: map[string]*Term{}, NonNaN: map[int]bool{}} }

func (c *Ctx) NumTerms() int { return len(c.terms) }

func (c *Ctx) mk(op Op, s Sort, args []*Term, u uint64, name string, i, j int) *Term {
	var kb strings.Builder
	fmt.Fprintf(&kb, "%d|%d.%d|%x|%s|%d|%d", op, s.K, s.W, u, name, i, j)
	for _, a := range args {
		fmt.Fprintf(&kb, "|%d", a.ID)
	}
	k := kb.String()
	if t, ok := c.tab[k]; ok {
		return t
	}
	t := &Term{ID: len(c.terms), Op: op, Sort: s, Args: args, U: u, Name: name, I: i, J: j}
	c.tab[k] = t
	c.terms = append(c.terms, t)
	if op == OVar {
		c.Vars = append(c.Vars, t)
	}
	return t
}

func mask(w int) uint64 {
	if w >= 64 {
		return ^uint64(0)
	}
	return (uint64(1) << uint(w)) - 1
}

func sext(u uint64, w int) int64 {
	if w >= 64 {
		return int64(u)
	}
	u &= mask(w)
	if u&(1<<uint(w-1)) != 0 {
		return int64(u | ^mask(w))
	}
	return int64(u)
}

// ---- leaf constructors ----

func (c *Ctx) Var(name string, s Sort) *Term { return c.mk(OVar, s, nil, 0, name, 0, 0) }

// Fresh returns a new variable with a deterministic name (creation order).
func (c *Ctx) Fresh(prefix string, s Sort) *Term {
	c.nfree++
	return c.Var(fmt.Sprintf("%s!%d", prefix, c.nfree), s)
}

func (c *Ctx) BoolC(b bool) *Term {
	if b {
		return c.mk(OConst, Bool, nil, 1, "", 0, 0)
	}
	return c.mk(OConst, Bool, nil, 0, "", 0, 0)
}
func (c *Ctx) True() *Term  { return c.BoolC(true) }
func (c *Ctx) False() *Term { return c.BoolC(false) }

func (c *Ctx) BVC(w int, v uint64) *Term {
	if w > 64 {
		// wide constants are built by extension so that printing stays exact
		return c.mk(OZExt, BV(w), []*Term{c.mk(OConst, BV(64), nil, v, "", 0, 0)}, 0, "", 0, 0)
	}
	return c.mk(OConst, BV(w), nil, v&mask(w), "", 0, 0)
}
func (c *Ctx) IntC(w int, v int64) *Term {
	if w > 64 {
		return c.mk(OSExt, BV(w), []*Term{c.mk(OConst, BV(64), nil, uint64(v), "", 0, 0)}, 0, "", 0, 0)
	}
	return c.BVC(w, uint64(v))
}
func (c *Ctx) FC(f float64) *Term        { return c.mk(OConst, F64, nil, math.Float64bits(f), "", 0, 0) }
func (c *Ctx) FCBits(b uint64) *Term     { return c.mk(OConst, F64, nil, b, "", 0, 0) }

// ---- integers (order keys) ----

func (c *Ctx) IntConst(v int64) *Term { return c.mk(OConst, Int, nil, uint64(v), "", 0, 0) }

// KeyOfBits maps a non-NaN IEEE pattern to its order key.
func KeyOfBits(u uint64) int64 {
	if u>>63 == 1 {
		return int64(u ^ 0x7fffffffffffffff)
	}
	return int64(u)
}

// BitsOfKey is the inverse of KeyOfBits.
func BitsOfKey(k int64) uint64 {
	if k < 0 {
		return uint64(k) ^ 0x7fffffffffffffff
	}
	return uint64(k)
}

var (
	KeyPInf = KeyOfBits(0x7ff0000000000000)
	KeyNInf = KeyOfBits(0xfff0000000000000)
)

func (c *Ctx) ILt(a, b *Term) *Term {
	if a.IsConst() && b.IsConst() {
		return c.BoolC(int64(a.U) < int64(b.U))
	}
	if a == b {
		return c.False()
	}
	return c.mk(OILt, Bool, []*Term{a, b}, 0, "", 0, 0)
}
func (c *Ctx) ILe(a, b *Term) *Term {
	if a.IsConst() && b.IsConst() {
		return c.BoolC(int64(a.U) <= int64(b.U))
	}
	if a == b {
		return c.True()
	}
	return c.mk(OILe, Bool, []*Term{a, b}, 0, "", 0, 0)
}

// FFromKey is the float whose order key is k.
func (c *Ctx) FFromKey(k *Term) *Term {
	if k.IsConst() {
		return c.FCBits(BitsOfKey(int64(k.U)))
	}
	if k.Op == OIte {
		return c.Ite(k.Args[0], c.FFromKey(k.Args[1]), c.FFromKey(k.Args[2]))
	}
	return c.mk(OFFromKey, F64, []*Term{k}, 0, "", 0, 0)
}

// KeyBacked reports whether t's order key is available as an Int term.
func KeyBacked(t *Term) bool {
	switch t.Op {
	case OConst:
		return !isNaNBits(t.U)
	case OFFromKey:
		return true
	case OIte:
		return KeyBacked(t.Args[1]) && KeyBacked(t.Args[2])
	}
	return false
}

func hasKey(t *Term) bool {
	switch t.Op {
	case OFFromKey:
		return true
	case OIte:
		return hasKey(t.Args[1]) || hasKey(t.Args[2])
	}
	return false
}

// FKey returns the order key of a key-backed float.
func (c *Ctx) FKey(t *Term) *Term {
	switch t.Op {
	case OConst:
		return c.IntConst(KeyOfBits(t.U))
	case OFFromKey:
		return t.Args[0]
	case OIte:
		return c.Ite(t.Args[0], c.FKey(t.Args[1]), c.FKey(t.Args[2]))
	}
	panic("FKey of non key-backed term " + t.String())
}

func (c *Ctx) keyIsZero(k *Term) *Term {
	if k.Op == OIte {
		return c.Ite(k.Args[0], c.keyIsZero(k.Args[1]), c.keyIsZero(k.Args[2]))
	}
	return c.Or(c.Eq(k, c.IntConst(0)), c.Eq(k, c.IntConst(-1)))
}

// Native builds an application of an SMT-LIB operator that the term layer
// does not interpret (used by the real-arithmetic float mode). A nullary
// application prints as the bare name (a numeral).
func (c *Ctx) Native(name string, s Sort, args ...*Term) *Term {
	return c.mk(ONative, s, args, 0, name, 0, 0)
}

// ---- booleans ----

func (c *Ctx) Not(a *Term) *Term {
	if a.IsConst() {
		return c.BoolC(a.U == 0)
	}
	if a.Op == ONot {
		return a.Args[0]
	}
	return c.mk(ONot, Bool, []*Term{a}, 0, "", 0, 0)
}

func (c *Ctx) And(as ...*Term) *Term {
	var out []*Term
	seen := map[int]bool{}
	for _, a := range as {
		if a.IsFalse() {
			return a
		}
		if a.IsTrue() || seen[a.ID] {
			continue
		}
		if a.Op == OAnd {
			for _, b := range a.Args {
				if !seen[b.ID] {
					seen[b.ID] = true
					out = append(out, b)
				}
			}
			continue
		}
		seen[a.ID] = true
		out = append(out, a)
	}
	for _, a := range out {
		if a.Op == ONot && seen[a.Args[0].ID] {
			return c.False()
		}
	}
	switch len(out) {
	case 0:
		return c.True()
	case 1:
		return out[0]
	}
	return c.mk(OAnd, Bool, out, 0, "", 0, 0)
}

func (c *Ctx) Or(as ...*Term) *Term {
	var out []*Term
	seen := map[int]bool{}
	for _, a := range as {
		if a.IsTrue() {
			return a
		}
		if a.IsFalse() || seen[a.ID] {
			continue
		}
		if a.Op == OOr {
			for _, b := range a.Args {
				if !seen[b.ID] {
					seen[b.ID] = true
					out = append(out, b)
				}
			}
			continue
		}
		seen[a.ID] = true
		out = append(out, a)
	}
	for _, a := range out {
		if a.Op == ONot && seen[a.Args[0].ID] {
			return c.True()
		}
	}
	switch len(out) {
	case 0:
		return c.False()
	case 1:
		return out[0]
	}
	return c.mk(OOr, Bool, out, 0, "", 0, 0)
}

func (c *Ctx) Implies(a, b *Term) *Term { return c.Or(c.Not(a), b) }
func (c *Ctx) Xor(a, b *Term) *Term     { return c.Not(c.Eq(a, b)) }

func (c *Ctx) Ite(cond, a, b *Term) *Term {
	if cond.IsConst() {
		if cond.U == 1 {
			return a
		}
		return b
	}
	if a == b {
		return a
	}
	if a.Sort != b.Sort {
		panic(fmt.Sprintf("ite sort mismatch %v %v", a.Sort, b.Sort))
	}
	if a.Sort.K == KBool {
		if a.IsTrue() && b.IsFalse() {
			return cond
		}
		if a.IsFalse() && b.IsTrue() {
			return c.Not(cond)
		}
	}
	return c.mk(OIte, a.Sort, []*Term{cond, a, b}, 0, "", 0, 0)
}

// Eq is structural equality on Bool or BV terms. For floats use FEq (IEEE) or
// compare FBits.
func (c *Ctx) Eq(a, b *Term) *Term {
	if a.Sort != b.Sort {
		panic(fmt.Sprintf("eq sort mismatch %v %v (%v, %v)", a.Sort, b.Sort, a, b))
	}
	if a.Sort.K == KF64 {
		panic("Eq on F64; use FEq or FBits")
	}
	if a == b {
		return c.True()
	}
	if a.IsConst() && b.IsConst() {
		return c.BoolC(a.U == b.U)
	}
	if a.Sort.K == KBool {
		if a.IsConst() {
			a, b = b, a
		}
		if b.IsTrue() {
			return a
		}
		if b.IsFalse() {
			return c.Not(a)
		}
	}
	if a.ID > b.ID {
		a, b = b, a
	}
	// (ite c x y) == const folding when leaves are constants
	if b.IsConst() && a.Op == OIte && constLeafIte(a, 0) {
		return c.Ite(a.Args[0], c.Eq(a.Args[1], b), c.Eq(a.Args[2], b))
	}
	if a.IsConst() && b.Op == OIte && constLeafIte(b, 0) {
		return c.Ite(b.Args[0], c.Eq(b.Args[1], a), c.Eq(b.Args[2], a))
	}
	return c.mk(OEq, Bool, []*Term{a, b}, 0, "", 0, 0)
}

// ---- bit-vectors ----

func (c *Ctx) bin(op Op, a, b *Term) *Term {
	if a.Sort != b.Sort || a.Sort.K != KBV {
		panic(fmt.Sprintf("%v: sort mismatch %v %v", op, a.Sort, b.Sort))
	}
	w := a.Sort.W
	if a.IsConst() && b.IsConst() && w <= 64 {
		x, y := a.U, b.U
		sx, sy := sext(x, w), sext(y, w)
		var r uint64
		switch op {
		case OAdd:
			r = x + y
		case OSub:
			r = x - y
		case OMul:
			r = x * y
		case OUDiv:
			if y == 0 {
				r = mask(w)
			} else {
				r = x / y
			}
		case OURem:
			if y == 0 {
				r = x
			} else {
				r = x % y
			}
		case OSDiv:
			if y == 0 {
				if sx >= 0 {
					r = mask(w)
				} else {
					r = 1
				}
			} else if sy == -1 {
				r = uint64(-sx)
			} else {
				r = uint64(sx / sy)
			}
		case OSRem:
			if y == 0 {
				r = x
			} else if sy == -1 {
				r = 0
			} else {
				r = uint64(sx % sy)
			}
		case OBAnd:
			r = x & y
		case OBOr:
			r = x | y
		case OBXor:
			r = x ^ y
		case OShl:
			if y >= uint64(w) {
				r = 0
			} else {
				r = x << y
			}
		case OLShr:
			if y >= uint64(w) {
				r = 0
			} else {
				r = x >> y
			}
		case OAShr:
			if y >= uint64(w) {
				if sx < 0 {
					r = mask(w)
				} else {
					r = 0
				}
			} else {
				r = uint64(sx >> y)
			}
		}
		return c.BVC(w, r)
	}
	// light identities
	switch op {
	case OAdd, OBOr, OBXor:
		if a.IsConst() && a.U == 0 {
			return b
		}
		if b.IsConst() && b.U == 0 {
			return a
		}
	case OSub, OShl, OLShr, OAShr:
		if b.IsConst() && b.U == 0 {
			return a
		}
	case OMul:
		if a.IsConst() && a.U == 1 {
			return b
		}
		if b.IsConst() && b.U == 1 {
			return a
		}
		if (a.IsConst() && a.U == 0) || (b.IsConst() && b.U == 0) {
			return c.BVC(w, 0)
		}
	case OBAnd:
		if (a.IsConst() && a.U == 0) || (b.IsConst() && b.U == 0) {
			return c.BVC(w, 0)
		}
		if a.IsConst() && a.U == mask(w) {
			return b
		}
		if b.IsConst() && b.U == mask(w) {
			return a
		}
	}
	switch op {
	case OAdd, OMul, OBAnd, OBOr, OBXor:
		if a.ID > b.ID {
			a, b = b, a
		}
	}
	return c.mk(op, a.Sort, []*Term{a, b}, 0, "", 0, 0)
}

func (c *Ctx) Add(a, b *Term) *Term  { return c.bin(OAdd, a, b) }
func (c *Ctx) Sub(a, b *Term) *Term  { return c.bin(OSub, a, b) }
func (c *Ctx) Mul(a, b *Term) *Term  { return c.bin(OMul, a, b) }
func (c *Ctx) UDiv(a, b *Term) *Term { return c.bin(OUDiv, a, b) }
func (c *Ctx) URem(a, b *Term) *Term { return c.bin(OURem, a, b) }
func (c *Ctx) SDiv(a, b *Term) *Term { return c.bin(OSDiv, a, b) }
func (c *Ctx) SRem(a, b *Term) *Term { return c.bin(OSRem, a, b) }
func (c *Ctx) BAnd(a, b *Term) *Term { return c.bin(OBAnd, a, b) }
func (c *Ctx) BOr(a, b *Term) *Term  { return c.bin(OBOr, a, b) }
func (c *Ctx) BXor(a, b *Term) *Term { return c.bin(OBXor, a, b) }
func (c *Ctx) Shl(a, b *Term) *Term  { return c.bin(OShl, a, b) }
func (c *Ctx) LShr(a, b *Term) *Term { return c.bin(OLShr, a, b) }
func (c *Ctx) AShr(a, b *Term) *Term { return c.bin(OAShr, a, b) }

func (c *Ctx) Neg(a *Term) *Term {
	if a.IsConst() && a.Sort.W <= 64 {
		return c.BVC(a.Sort.W, -a.U)
	}
	return c.mk(ONeg, a.Sort, []*Term{a}, 0, "", 0, 0)
}
func (c *Ctx) BNot(a *Term) *Term {
	if a.IsConst() {
		return c.BVC(a.Sort.W, ^a.U)
	}
	return c.mk(OBNot, a.Sort, []*Term{a}, 0, "", 0, 0)
}

// constLeafIte reports whether t is an ite tree whose leaves are constants.
func constLeafIte(t *Term, depth int) bool {
	if t.IsConst() {
		return true
	}
	if t.Op != OIte || depth > 40 {
		return false
	}
	return constLeafIte(t.Args[1], depth+1) && constLeafIte(t.Args[2], depth+1)
}

func (c *Ctx) cmp(op Op, a, b *Term) *Term {
	if a.Sort != b.Sort || a.Sort.K != KBV {
		panic(fmt.Sprintf("%v: sort mismatch %v %v", op, a.Sort, b.Sort))
	}
	w := a.Sort.W
	if w > 64 {
		if a == b {
			return c.BoolC(op == OULe || op == OSLe)
		}
		return c.mk(op, Bool, []*Term{a, b}, 0, "", 0, 0)
	}
	if b.IsConst() && a.Op == OIte && constLeafIte(a, 0) {
		return c.Ite(a.Args[0], c.cmp(op, a.Args[1], b), c.cmp(op, a.Args[2], b))
	}
	if a.IsConst() && b.Op == OIte && constLeafIte(b, 0) {
		return c.Ite(b.Args[0], c.cmp(op, a, b.Args[1]), c.cmp(op, a, b.Args[2]))
	}
	// zero-extended values are below any constant that needs more bits
	if b.IsConst() && a.Op == OZExt && (op == OULt || op == OULe) && a.Args[0].Sort.W < 64 && b.U > mask(a.Args[0].Sort.W) {
		return c.True()
	}
	if a.IsConst() && b.IsConst() {
		var r bool
		switch op {
		case OULt:
			r = a.U < b.U
		case OULe:
			r = a.U <= b.U
		case OSLt:
			r = sext(a.U, w) < sext(b.U, w)
		case OSLe:
			r = sext(a.U, w) <= sext(b.U, w)
		}
		return c.BoolC(r)
	}
	if a == b {
		return c.BoolC(op == OULe || op == OSLe)
	}
	return c.mk(op, Bool, []*Term{a, b}, 0, "", 0, 0)
}
func (c *Ctx) ULt(a, b *Term) *Term { return c.cmp(OULt, a, b) }
func (c *Ctx) ULe(a, b *Term) *Term { return c.cmp(OULe, a, b) }
func (c *Ctx) SLt(a, b *Term) *Term { return c.cmp(OSLt, a, b) }
func (c *Ctx) SLe(a, b *Term) *Term { return c.cmp(OSLe, a, b) }

func (c *Ctx) Extract(a *Term, hi, lo int) *Term {
	w := hi - lo + 1
	if lo == 0 && w == a.Sort.W {
		return a
	}
	if a.IsConst() {
		return c.BVC(w, a.U>>uint(lo))
	}
	if a.Op == OConcat {
		// args[0] is the high part
		lw := a.Args[1].Sort.W
		if hi < lw {
			return c.Extract(a.Args[1], hi, lo)
		}
		if lo >= lw {
			return c.Extract(a.Args[0], hi-lw, lo-lw)
		}
	}
	if a.Op == OExtract {
		return c.Extract(a.Args[0], hi+a.J, lo+a.J)
	}
	if (a.Op == OZExt || a.Op == OSExt) && hi < a.Args[0].Sort.W {
		return c.Extract(a.Args[0], hi, lo)
	}
	if a.Op == OIte && constLeafIte(a, 0) {
		return c.Ite(a.Args[0], c.Extract(a.Args[1], hi, lo), c.Extract(a.Args[2], hi, lo))
	}
	return c.mk(OExtract, BV(w), []*Term{a}, 0, "", hi, lo)
}

func (c *Ctx) Concat(hi, lo *Term) *Term {
	w := hi.Sort.W + lo.Sort.W
	if hi.IsConst() && lo.IsConst() && w <= 64 {
		return c.BVC(w, hi.U<<uint(lo.Sort.W)|lo.U)
	}
	// extract(x,h,m+1) ++ extract(x,m,l) = extract(x,h,l)
	if hi.Op == OExtract && lo.Op == OExtract && hi.Args[0] == lo.Args[0] && hi.J == lo.I+1 {
		return c.Extract(hi.Args[0], hi.I, lo.J)
	}
	return c.mk(OConcat, BV(w), []*Term{hi, lo}, 0, "", 0, 0)
}

func (c *Ctx) ZExt(a *Term, w int) *Term {
	if w == a.Sort.W {
		return a
	}
	if w < a.Sort.W {
		return c.Extract(a, w-1, 0)
	}
	if a.IsConst() && w <= 64 {
		return c.BVC(w, a.U)
	}
	if a.Op == OIte && constLeafIte(a, 0) && w <= 64 {
		return c.Ite(a.Args[0], c.ZExt(a.Args[1], w), c.ZExt(a.Args[2], w))
	}
	return c.mk(OZExt, BV(w), []*Term{a}, 0, "", 0, 0)
}

func (c *Ctx) SExt(a *Term, w int) *Term {
	if w == a.Sort.W {
		return a
	}
	if w < a.Sort.W {
		return c.Extract(a, w-1, 0)
	}
	if a.IsConst() && w <= 64 {
		return c.BVC(w, uint64(sext(a.U, a.Sort.W)))
	}
	return c.mk(OSExt, BV(w), []*Term{a}, 0, "", 0, 0)
}

// SelectConst reads table[idx] for a table of constants, pushing the read
// through constant-leaf ite trees in the index.
func (c *Ctx) SelectConst(idx *Term, table []*Term) *Term {
	if idx.IsConst() {
		if idx.U < uint64(len(table)) {
			return table[idx.U]
		}
		return table[0]
	}
	if idx.Op == OIte && constLeafIte(idx, 0) {
		return c.Ite(idx.Args[0], c.SelectConst(idx.Args[1], table), c.SelectConst(idx.Args[2], table))
	}
	n := len(table)
	r := table[n-1]
	for i := n - 2; i >= 0; i-- {
		r = c.Ite(c.Eq(idx, c.BVC(idx.Sort.W, uint64(i))), table[i], r)
	}
	return r
}

// Rebuild reconstructs t with new arguments through the simplifying
// constructors.
func (c *Ctx) Rebuild(t *Term, as []*Term) *Term {
	switch t.Op {
	case ONot:
		return c.Not(as[0])
	case OAnd:
		return c.And(as...)
	case OOr:
		return c.Or(as...)
	case OIte:
		return c.Ite(as[0], as[1], as[2])
	case OEq:
		return c.Eq(as[0], as[1])
	case OAdd, OSub, OMul, OUDiv, OURem, OSDiv, OSRem, OBAnd, OBOr, OBXor, OShl, OLShr, OAShr:
		return c.bin(t.Op, as[0], as[1])
	case ONeg:
		return c.Neg(as[0])
	case OBNot:
		return c.BNot(as[0])
	case OULt, OULe, OSLt, OSLe:
		return c.cmp(t.Op, as[0], as[1])
	case OConcat:
		return c.Concat(as[0], as[1])
	case OExtract:
		return c.Extract(as[0], t.I, t.J)
	case OZExt:
		return c.ZExt(as[0], t.Sort.W)
	case OSExt:
		return c.SExt(as[0], t.Sort.W)
	case OILt:
		return c.ILt(as[0], as[1])
	case OILe:
		return c.ILe(as[0], as[1])
	}
	return c.mk(t.Op, t.Sort, as, t.U, t.Name, t.I, t.J)
}

// ---- floats ----

const CanonNaN = 0x7FF8000000000001

func (c *Ctx) FFromBits(b *Term) *Term {
	if b.Sort != BV(64) {
		panic("FFromBits needs bv64")
	}
	if b.IsConst() {
		return c.FCBits(b.U)
	}
	if b.Op == OFBits {
		// frombits(bits(x)) == x up to NaN payload, which bits() canonicalises.
		return b.Args[0]
	}
	if b.Op == OIte {
		return c.Ite(b.Args[0], c.FFromBits(b.Args[1]), c.FFromBits(b.Args[2]))
	}
	return c.mk(OFFromBits, F64, []*Term{b}, 0, "", 0, 0)
}

// FGrid is the float k * 2^-scale for signed bit-vector k.
func (c *Ctx) FGrid(k *Term, scale int) *Term {
	if k.IsConst() {
		return c.FC(math.Ldexp(float64(k.Int()), -scale))
	}
	return c.mk(OFGrid, F64, []*Term{k}, 0, "", scale, 0)
}

// FBits returns the IEEE bit pattern; exact for values that came from bits.
func (c *Ctx) FBits(f *Term) *Term {
	switch f.Op {
	case OConst:
		return c.BVC(64, f.U)
	case OFFromBits:
		return f.Args[0]
	case OIte:
		return c.Ite(f.Args[0], c.FBits(f.Args[1]), c.FBits(f.Args[2]))
	}
	return c.mk(OFBits, BV(64), []*Term{f}, 0, "", 0, 0)
}

func isNaNBits(u uint64) bool { f := math.Float64frombits(u); return f != f }

func (c *Ctx) fbin(op Op, a, b *Term) *Term {
	if a.IsConst() && b.IsConst() {
		x, y := a.Float(), b.Float()
		var r float64
		switch op {
		case OFAdd:
			r = x + y
		case OFSub:
			r = x - y
		case OFMul:
			r = x * y
		case OFDiv:
			r = x / y
		}
		if r != r {
			return c.FCBits(CanonNaN)
		}
		return c.FC(r)
	}
	if op == OFAdd || op == OFMul {
		if a.ID > b.ID {
			a, b = b, a
		}
	}
	return c.mk(op, F64, []*Term{a, b}, 0, "", 0, 0)
}
func (c *Ctx) FAdd(a, b *Term) *Term { return c.fbin(OFAdd, a, b) }
func (c *Ctx) FSub(a, b *Term) *Term { return c.fbin(OFSub, a, b) }
func (c *Ctx) FMul(a, b *Term) *Term { return c.fbin(OFMul, a, b) }
func (c *Ctx) FDiv(a, b *Term) *Term { return c.fbin(OFDiv, a, b) }

func (c *Ctx) FNeg(a *Term) *Term {
	if a.IsConst() {
		return c.FCBits(a.U ^ (1 << 63))
	}
	if a.Op == OFNeg {
		return a.Args[0]
	}
	return c.mk(OFNeg, F64, []*Term{a}, 0, "", 0, 0)
}
func (c *Ctx) FAbs(a *Term) *Term {
	if a.IsConst() {
		return c.FCBits(a.U &^ (1 << 63))
	}
	// |x - y| == |y - x| : normalise operand order (bit-exact IEEE identity up to NaN payload)
	if a.Op == OFSub && a.Args[0].ID > a.Args[1].ID {
		a = c.mk(OFSub, F64, []*Term{a.Args[1], a.Args[0]}, 0, "", 0, 0)
	}
	if a.Op == OFAbs {
		return a
	}
	return c.mk(OFAbs, F64, []*Term{a}, 0, "", 0, 0)
}
func (c *Ctx) FSqrt(a *Term) *Term {
	if a.IsConst() {
		r := math.Sqrt(a.Float())
		if r != r {
			return c.FCBits(CanonNaN)
		}
		return c.FC(r)
	}
	return c.mk(OFSqrt, F64, []*Term{a}, 0, "", 0, 0)
}

// BitsBacked reports whether the float's IEEE pattern is available as a pure
// bit-vector term (constants, values built from bits, and ite over those).
func BitsBacked(t *Term) bool {
	switch t.Op {
	case OConst, OFFromBits:
		return true
	case OIte:
		return BitsBacked(t.Args[1]) && BitsBacked(t.Args[2])
	}
	return false
}

// LowerCmp controls whether comparisons of bit-backed floats are expressed
// over their bit patterns (exact IEEE semantics, validated against the FP
// theory by the L0 obligations) instead of the solver's FP theory.
var LowerCmp = true

func (c *Ctx) nanBits(b *Term) *Term {
	if b.Op == OIte {
		return c.Ite(b.Args[0], c.nanBits(b.Args[1]), c.nanBits(b.Args[2]))
	}
	if b.Op == OVar && c.NonNaN[b.ID] {
		return c.False()
	}
	if b.IsConst() {
		return c.BoolC(isNaNBits(b.U))
	}
	return c.ULt(c.BVC(64, 0x7ff0000000000000), c.BAnd(b, c.BVC(64, 0x7fffffffffffffff)))
}

func (c *Ctx) zeroBits(b *Term) *Term {
	if b.Op == OIte {
		return c.Ite(b.Args[0], c.zeroBits(b.Args[1]), c.zeroBits(b.Args[2]))
	}
	return c.Eq(c.BAnd(b, c.BVC(64, 0x7fffffffffffffff)), c.BVC(64, 0))
}

// orderKey maps an IEEE pattern to a signed integer with the same order on
// non-NaN values, except that -0 sorts immediately below +0 (the caller adds
// the both-zero case). It is an xor with a sign-dependent mask (no carry
// chain) and is pushed through ite so that keys of the leaves are shared.
func (c *Ctx) orderKey(b *Term) *Term {
	if b.Op == OIte {
		return c.Ite(b.Args[0], c.orderKey(b.Args[1]), c.orderKey(b.Args[2]))
	}
	if b.IsConst() {
		if b.U>>63 == 1 {
			return c.BVC(64, b.U^0x7fffffffffffffff)
		}
		return b
	}
	neg := c.Eq(c.Extract(b, 63, 63), c.BVC(1, 1))
	return c.Ite(neg, c.BXor(b, c.BVC(64, 0x7fffffffffffffff)), b)
}

// FTotLe is the total order used by math.Min/Max on non-NaN values: IEEE <=
// refined by -0 < +0.
func (c *Ctx) FTotLe(a, b *Term) *Term {
	if KeyBacked(a) && KeyBacked(b) && (hasKey(a) || hasKey(b)) {
		return c.ILe(c.FKey(a), c.FKey(b))
	}
	if BitsBacked(a) && BitsBacked(b) {
		return c.SLe(c.orderKey(c.FBits(a)), c.orderKey(c.FBits(b)))
	}
	// a < b, or a == b and not (a is +0 and b is -0)
	return c.Or(c.FLt(a, b), c.And(c.FEq(a, b), c.Or(c.FIsNeg(a), c.Not(c.FIsNeg(b)))))
}

func (c *Ctx) fcmp(op Op, a, b *Term) *Term {
	if KeyBacked(a) && KeyBacked(b) && (hasKey(a) || hasKey(b)) {
		ka, kb := c.FKey(a), c.FKey(b)
		bothZero := c.And(c.keyIsZero(ka), c.keyIsZero(kb))
		switch op {
		case OFLt:
			return c.And(c.ILt(ka, kb), c.Not(bothZero))
		case OFLe:
			return c.Or(c.ILe(ka, kb), bothZero)
		default:
			return c.Or(c.Eq(ka, kb), bothZero)
		}
	}
	if LowerCmp && BitsBacked(a) && BitsBacked(b) && !(a.IsConst() && b.IsConst()) {
		if a.IsConst() && isNaNBits(a.U) || b.IsConst() && isNaNBits(b.U) {
			return c.False()
		}
		ab, bb := c.FBits(a), c.FBits(b)
		ok := c.And(c.Not(c.nanBits(ab)), c.Not(c.nanBits(bb)))
		ka, kb := c.orderKey(ab), c.orderKey(bb)
		bothZero := c.And(c.zeroBits(ab), c.zeroBits(bb))
		switch op {
		case OFLt:
			return c.And(ok, c.SLt(ka, kb), c.Not(bothZero))
		case OFLe:
			return c.And(ok, c.Or(c.SLe(ka, kb), bothZero))
		default:
			return c.And(ok, c.Or(c.Eq(ka, kb), bothZero))
		}
	}
	if a.IsConst() && b.IsConst() {
		x, y := a.Float(), b.Float()
		switch op {
		case OFLt:
			return c.BoolC(x < y)
		case OFLe:
			return c.BoolC(x <= y)
		case OFEq:
			return c.BoolC(x == y)
		}
	}
	if a.IsConst() && isNaNBits(a.U) || b.IsConst() && isNaNBits(b.U) {
		return c.False()
	}
	if op == OFEq && a.ID > b.ID {
		a, b = b, a
	}
	return c.mk(op, Bool, []*Term{a, b}, 0, "", 0, 0)
}
func (c *Ctx) FLt(a, b *Term) *Term { return c.fcmp(OFLt, a, b) }
func (c *Ctx) FLe(a, b *Term) *Term { return c.fcmp(OFLe, a, b) }
func (c *Ctx) FGt(a, b *Term) *Term { return c.fcmp(OFLt, b, a) }
func (c *Ctx) FGe(a, b *Term) *Term { return c.fcmp(OFLe, b, a) }
func (c *Ctx) FEq(a, b *Term) *Term { return c.fcmp(OFEq, a, b) }

func (c *Ctx) FIsNaN(a *Term) *Term {
	if a.IsConst() {
		return c.BoolC(isNaNBits(a.U))
	}
	if a.Op == OFGrid || (KeyBacked(a) && hasKey(a)) {
		return c.False()
	}
	if LowerCmp && BitsBacked(a) {
		return c.nanBits(c.FBits(a))
	}
	// x*k and x/k for a finite non-zero constant k are NaN exactly when x is
	if (a.Op == OFMul || a.Op == OFDiv) && len(a.Args) == 2 {
		isK := func(t *Term) bool {
			return t.IsConst() && !isNaNBits(t.U) && !math.IsInf(t.Float(), 0) && t.Float() != 0
		}
		if isK(a.Args[1]) {
			return c.FIsNaN(a.Args[0])
		}
		if a.Op == OFMul && isK(a.Args[0]) {
			return c.FIsNaN(a.Args[1])
		}
	}
	return c.mk(OFIsNaN, Bool, []*Term{a}, 0, "", 0, 0)
}
func (c *Ctx) FIsInf(a *Term) *Term {
	if a.IsConst() {
		return c.BoolC(math.IsInf(a.Float(), 0))
	}
	if a.Op == OFGrid {
		return c.False()
	}
	if KeyBacked(a) && hasKey(a) {
		k := c.FKey(a)
		return c.Or(c.Eq(k, c.IntConst(KeyPInf)), c.Eq(k, c.IntConst(KeyNInf)))
	}
	if LowerCmp && BitsBacked(a) {
		return c.Eq(c.BAnd(c.FBits(a), c.BVC(64, 0x7fffffffffffffff)), c.BVC(64, 0x7ff0000000000000))
	}
	return c.mk(OFIsInf, Bool, []*Term{a}, 0, "", 0, 0)
}
func (c *Ctx) FIsNeg(a *Term) *Term {
	if a.IsConst() {
		return c.BoolC(a.U>>63 == 1)
	}
	if KeyBacked(a) && hasKey(a) {
		return c.ILt(c.FKey(a), c.IntConst(0))
	}
	if BitsBacked(a) {
		return c.Eq(c.Extract(c.FBits(a), 63, 63), c.BVC(1, 1))
	}
	return c.mk(OFIsNeg, Bool, []*Term{a}, 0, "", 0, 0)
}
func (c *Ctx) FFromSInt(a *Term) *Term {
	if a.IsConst() {
		return c.FC(float64(a.Int()))
	}
	return c.mk(OFFromSInt, F64, []*Term{a}, 0, "", 0, 0)
}
func (c *Ctx) FFromUInt(a *Term) *Term {
	if a.IsConst() {
		return c.FC(float64(a.U))
	}
	return c.mk(OFFromUInt, F64, []*Term{a}, 0, "", 0, 0)
}
func (c *Ctx) FToSInt(a *Term, w int) *Term {
	if a.IsConst() {
		return c.IntC(w, int64(a.Float()))
	}
	return c.mk(OFToSInt, BV(w), []*Term{a}, 0, "", w, 0)
}
func (c *Ctx) FNextUp(a *Term) *Term {
	if a.IsConst() {
		return c.FC(math.Nextafter(a.Float(), math.Inf(1)))
	}
	return c.mk(OFNextUp, F64, []*Term{a}, 0, "", 0, 0)
}
func (c *Ctx) FNextDown(a *Term) *Term {
	if a.IsConst() {
		return c.FC(math.Nextafter(a.Float(), math.Inf(-1)))
	}
	return c.mk(OFNextDown, F64, []*Term{a}, 0, "", 0, 0)
}

// UF is an uninterpreted function application; with all-constant arguments
// and a registered concrete implementation it folds.
func (c *Ctx) UF(name string, s Sort, args ...*Term) *Term {
	if impl, ok := UFImpl[name]; ok {
		all := true
		for _, a := range args {
			if !a.IsConst() {
				all = false
			}
		}
		if all {
			xs := make([]float64, len(args))
			for i, a := range args {
				xs[i] = a.Float()
			}
			r := impl(xs)
			if r != r {
				return c.FCBits(CanonNaN)
			}
			return c.FC(r)
		}
	}
	return c.mk(OUF, s, args, 0, name, 0, 0)
}

// UFImpl gives the concrete meaning of the libm symbols, used for constant
// folding and for model evaluation during replay checks.
var UFImpl = map[string]func([]float64) float64{
	"sin":   func(x []float64) float64 { return math.Sin(x[0]) },
	"cos":   func(x []float64) float64 { return math.Cos(x[0]) },
	"tan":   func(x []float64) float64 { return math.Tan(x[0]) },
	"asin":  func(x []float64) float64 { return math.Asin(x[0]) },
	"acos":  func(x []float64) float64 { return math.Acos(x[0]) },
	"atan":  func(x []float64) float64 { return math.Atan(x[0]) },
	"atan2": func(x []float64) float64 { return math.Atan2(x[0], x[1]) },
	"exp":   func(x []float64) float64 { return math.Exp(x[0]) },
	"log":   func(x []float64) float64 { return math.Log(x[0]) },
	"pow":   func(x []float64) float64 { return math.Pow(x[0], x[1]) },
	"hypot": func(x []float64) float64 { return math.Hypot(x[0], x[1]) },
	"floor": func(x []float64) float64 { return math.Floor(x[0]) },
	"trunc": func(x []float64) float64 { return math.Trunc(x[0]) },
	"sinh":  func(x []float64) float64 { return math.Sinh(x[0]) },
	"cosh":  func(x []float64) float64 { return math.Cosh(x[0]) },
	"mod":   func(x []float64) float64 { return math.Mod(x[0], x[1]) },
}

// ---- evaluation under a model ----

type Model map[string]uint64

// Eval computes the concrete value of t under m (missing variables are 0).
// Floats are returned as bit patterns.
func (c *Ctx) Eval(t *Term, m Model) uint64 {
	memo := map[int]uint64{}
	return c.eval(t, m, memo)
}

func (c *Ctx) EvalMemo(t *Term, m Model, memo map[int]uint64) uint64 { return c.eval(t, m, memo) }

func b2u(b bool) uint64 {
	if b {
		return 1
	}
	return 0
}

func (c *Ctx) eval(t *Term, m Model, memo map[int]uint64) uint64 {
	if t.Op == OConst {
		return t.U
	}
	if v, ok := memo[t.ID]; ok {
		return v
	}
	var r uint64
	ev := func(i int) uint64 { return c.eval(t.Args[i], m, memo) }
	fl := func(i int) float64 { return math.Float64frombits(ev(i)) }
	fr := func(f float64) uint64 {
		if f != f {
			return CanonNaN
		}
		return math.Float64bits(f)
	}
	switch t.Op {
	case OVar:
		r = m[t.Name]
		if t.Sort.K == KBV {
			r &= mask(t.Sort.W)
		}
	case ONot:
		r = 1 - ev(0)
	case OAnd:
		r = 1
		for i := range t.Args {
			if ev(i) == 0 {
				r = 0
				break
			}
		}
	case OOr:
		r = 0
		for i := range t.Args {
			if ev(i) == 1 {
				r = 1
				break
			}
		}
	case OIte:
		if ev(0) == 1 {
			r = ev(1)
		} else {
			r = ev(2)
		}
	case OEq:
		r = b2u(ev(0) == ev(1))
	case OAdd, OSub, OMul, OUDiv, OURem, OSDiv, OSRem, OBAnd, OBOr, OBXor, OShl, OLShr, OAShr:
		w := t.Sort.W
		r = c.bin(t.Op, c.BVC(w, ev(0)), c.BVC(w, ev(1))).U
	case ONeg:
		r = (-ev(0)) & mask(t.Sort.W)
	case OBNot:
		r = (^ev(0)) & mask(t.Sort.W)
	case OULt, OULe, OSLt, OSLe:
		w := t.Args[0].Sort.W
		r = c.cmp(t.Op, c.BVC(w, ev(0)), c.BVC(w, ev(1))).U
	case OConcat:
		r = ev(0)<<uint(t.Args[1].Sort.W) | ev(1)
	case OExtract:
		r = (ev(0) >> uint(t.J)) & mask(t.I-t.J+1)
	case OZExt:
		r = ev(0)
	case OSExt:
		r = uint64(sext(ev(0), t.Args[0].Sort.W)) & mask(t.Sort.W)
	case OFFromBits:
		r = ev(0)
	case OFFromKey:
		r = BitsOfKey(int64(ev(0)))
	case OILt:
		r = b2u(int64(ev(0)) < int64(ev(1)))
	case OILe:
		r = b2u(int64(ev(0)) <= int64(ev(1)))
	case OFGrid:
		r = math.Float64bits(math.Ldexp(float64(sext(ev(0), t.Args[0].Sort.W)), -t.I))
	case OFBits:
		r = ev(0)
		if isNaNBits(r) {
			r = CanonNaN
		}
	case OFAdd:
		r = fr(fl(0) + fl(1))
	case OFSub:
		r = fr(fl(0) - fl(1))
	case OFMul:
		r = fr(fl(0) * fl(1))
	case OFDiv:
		r = fr(fl(0) / fl(1))
	case OFNeg:
		r = ev(0) ^ (1 << 63)
	case OFAbs:
		r = ev(0) &^ (1 << 63)
	case OFSqrt:
		r = fr(math.Sqrt(fl(0)))
	case OFLt:
		r = b2u(fl(0) < fl(1))
	case OFLe:
		r = b2u(fl(0) <= fl(1))
	case OFEq:
		r = b2u(fl(0) == fl(1))
	case OFIsNaN:
		r = b2u(isNaNBits(ev(0)))
	case OFIsInf:
		r = b2u(math.IsInf(fl(0), 0))
	case OFIsNeg:
		r = ev(0) >> 63
	case OFFromSInt:
		r = math.Float64bits(float64(sext(ev(0), t.Args[0].Sort.W)))
	case OFFromUInt:
		r = math.Float64bits(float64(ev(0)))
	case OFToSInt:
		r = uint64(int64(fl(0))) & mask(t.Sort.W)
	case OFNextUp:
		r = fr(math.Nextafter(fl(0), math.Inf(1)))
	case OFNextDown:
		r = fr(math.Nextafter(fl(0), math.Inf(-1)))
	case OUF:
		if impl, ok := UFImpl[t.Name]; ok {
			xs := make([]float64, len(t.Args))
			for i := range t.Args {
				xs[i] = fl(i)
			}
			r = fr(impl(xs))
		} else {
			// uninterpreted: model may carry a value under the application's key
			r = m[fmt.Sprintf("uf#%d", t.ID)]
		}
	default:
		panic("eval: unhandled op " + t.Op.String())
	}
	memo[t.ID] = r
	return r
}

// CollectVars returns the variables reachable from ts, in ID order.
func CollectVars(ts ...*Term) []*Term {
	seen := map[int]bool{}
	var out []*Term
	var walk func(t *Term)
	walk = func(t *Term) {
		if seen[t.ID] {
			return
		}
		seen[t.ID] = true
		if t.Op == OVar {
			out = append(out, t)
		}
		for _, a := range t.Args {
			walk(a)
		}
	}
	for _, t := range ts {
		walk(t)
	}
	return out
}

// Size counts DAG nodes reachable from ts.
func Size(ts ...*Term) int {
	seen := map[int]bool{}
	var walk func(t *Term)
	walk = func(t *Term) {
		if seen[t.ID] {
			return
		}
		seen[t.ID] = true
		for _, a := range t.Args {
			walk(a)
		}
	}
	for _, t := range ts {
		walk(t)
	}
	return len(seen)
}

var _ = bits.Len64
