package smt

import (
	"bufio"
	"math"
	"bytes"
	"fmt"
	"io"
	"os"
	"os/exec"
	"strconv"
	"strings"
	"time"
)

type Result int

const (
	Unknown Result = iota
	Sat
	Unsat
)

func (r Result) String() string { return [...]string{"unknown", "sat", "unsat"}[r] }

// Printer turns terms into SMT-LIB2 definitions, one define-fun per DAG node.
type Printer struct {
	ctx     *Ctx
	defined map[int]bool
	ufs     map[string]bool
	out     *bytes.Buffer
}

func NewPrinter(c *Ctx) *Printer {
	return &Printer{ctx: c, defined: map[int]bool{}, ufs: map[string]bool{}, out: &bytes.Buffer{}}
}

func sortStr(s Sort) string {
	switch s.K {
	case KBool:
		return "Bool"
	case KBV:
		return fmt.Sprintf("(_ BitVec %d)", s.W)
	case KInt:
		return "Int"
	case KReal:
		return "Real"
	}
	return "(_ FloatingPoint 11 53)"
}

func bvLit(w int, u uint64) string {
	u &= mask(w)
	if w%4 == 0 {
		return fmt.Sprintf("#x%0*x", w/4, u)
	}
	return fmt.Sprintf("#b%0*b", w, u)
}

func fpLit(u uint64) string {
	if isNaNBits(u) {
		return "(_ NaN 11 53)"
	}
	return fmt.Sprintf("(fp #b%b #b%011b #b%052b)", u>>63, (u>>52)&0x7ff, u&((1<<52)-1))
}

func tname(t *Term) string {
	if t.Op == OVar {
		return "|" + t.Name + "|"
	}
	return fmt.Sprintf("t%d", t.ID)
}

// ref returns the text by which t is referred to in other terms, emitting
// its definition first when needed.
func (p *Printer) ref(t *Term) string {
	if t.Op == OConst {
		switch t.Sort.K {
		case KBool:
			if t.U == 1 {
				return "true"
			}
			return "false"
		case KBV:
			return bvLit(t.Sort.W, t.U)
		case KInt:
			if int64(t.U) < 0 {
				return fmt.Sprintf("(- %d)", -int64(t.U))
			}
			return fmt.Sprintf("%d", int64(t.U))
		default:
			return fpLit(t.U)
		}
	}
	p.define(t)
	return tname(t)
}

func (p *Printer) define(t *Term) {
	if p.defined[t.ID] {
		return
	}
	p.defined[t.ID] = true
	if t.Op == OVar {
		fmt.Fprintf(p.out, "(declare-const %s %s)\n", tname(t), sortStr(t.Sort))
		return
	}
	c := p.ctx
	a := func(i int) string { return p.ref(t.Args[i]) }
	nary := func(op string) string {
		var sb strings.Builder
		sb.WriteString("(" + op)
		for i := range t.Args {
			sb.WriteString(" " + a(i))
		}
		sb.WriteString(")")
		return sb.String()
	}
	var body string
	switch t.Op {
	case ONot, OAnd, OOr, OIte, OEq, OAdd, OSub, OMul, OUDiv, OURem, OSDiv, OSRem, OBAnd, OBOr, OBXor,
		OShl, OLShr, OAShr, ONeg, OBNot, OULt, OULe, OSLt, OSLe, OConcat, OILt, OILe:
		body = nary(t.Op.String())
	case OExtract:
		body = fmt.Sprintf("((_ extract %d %d) %s)", t.I, t.J, a(0))
	case OZExt:
		body = fmt.Sprintf("((_ zero_extend %d) %s)", t.Sort.W-t.Args[0].Sort.W, a(0))
	case OSExt:
		body = fmt.Sprintf("((_ sign_extend %d) %s)", t.Sort.W-t.Args[0].Sort.W, a(0))
	case ONative:
		if len(t.Args) == 0 {
			body = t.Name
		} else {
			body = nary(t.Name)
		}
	case OFFromKey:
		panic("print: key-backed float used outside comparisons: " + t.String())
	case OFFromBits:
		body = fmt.Sprintf("((_ to_fp 11 53) %s)", a(0))
	case OFGrid:
		body = fmt.Sprintf("((_ to_fp 11 53) RNE %s)", a(0))
		if t.I != 0 {
			body = fmt.Sprintf("(fp.mul RNE %s %s)", body, fpLit(c.FC(ldexp1(-t.I)).U))
		}
	case OFBits:
		f := a(0)
		fmt.Fprintf(p.out, "(declare-const %s (_ BitVec 64))\n", tname(t))
		fmt.Fprintf(p.out, "(assert (ite (fp.isNaN %s) (= %s %s) (= ((_ to_fp 11 53) %s) %s)))\n",
			f, tname(t), bvLit(64, CanonNaN), tname(t), f)
		return
	case OFAdd:
		body = fmt.Sprintf("(fp.add RNE %s %s)", a(0), a(1))
	case OFSub:
		body = fmt.Sprintf("(fp.sub RNE %s %s)", a(0), a(1))
	case OFMul:
		body = fmt.Sprintf("(fp.mul RNE %s %s)", a(0), a(1))
	case OFDiv:
		body = fmt.Sprintf("(fp.div RNE %s %s)", a(0), a(1))
	case OFNeg:
		body = nary("fp.neg")
	case OFAbs:
		body = nary("fp.abs")
	case OFSqrt:
		body = fmt.Sprintf("(fp.sqrt RNE %s)", a(0))
	case OFLt:
		body = nary("fp.lt")
	case OFLe:
		body = nary("fp.leq")
	case OFEq:
		body = nary("fp.eq")
	case OFIsNaN:
		body = nary("fp.isNaN")
	case OFIsInf:
		body = nary("fp.isInfinite")
	case OFIsNeg:
		body = nary("fp.isNegative")
	case OFFromSInt:
		body = fmt.Sprintf("((_ to_fp 11 53) RNE %s)", a(0))
	case OFFromUInt:
		body = fmt.Sprintf("((_ to_fp_unsigned 11 53) RNE %s)", a(0))
	case OFToSInt:
		body = fmt.Sprintf("((_ fp.to_sbv %d) RTZ %s)", t.I, a(0))
	case OFNextUp, OFNextDown:
		x := t.Args[0]
		bb := c.FBits(x)
		one := c.BVC(64, 1)
		zero := c.FC(0)
		var r *Term
		if t.Op == OFNextUp {
			// NaN, +Inf stay; zero -> min subnormal; positive -> bits+1; negative -> bits-1
			stay := c.Or(c.FIsNaN(x), c.And(c.FIsInf(x), c.FLt(zero, x)))
			r = c.Ite(stay, x, c.Ite(c.FEq(x, zero), c.FFromBits(one),
				c.Ite(c.FLt(zero, x), c.FFromBits(c.Add(bb, one)), c.FFromBits(c.Sub(bb, one)))))
		} else {
			stay := c.Or(c.FIsNaN(x), c.And(c.FIsInf(x), c.FLt(x, zero)))
			r = c.Ite(stay, x, c.Ite(c.FEq(x, zero), c.FFromBits(c.BVC(64, 1<<63|1)),
				c.Ite(c.FLt(zero, x), c.FFromBits(c.Sub(bb, one)), c.FFromBits(c.Add(bb, one)))))
		}
		body = p.ref(r)
	case OUF:
		if t.Name == "trunc" && len(t.Args) == 1 && t.Sort == F64 {
			// math.Trunc is interpreted exactly (C17: integrality tests in formatters)
			body = fmt.Sprintf("(fp.roundToIntegral RTZ %s)", a(0))
			break
		}
		if !p.ufs[t.Name] {
			p.ufs[t.Name] = true
			var sb strings.Builder
			for i, x := range t.Args {
				if i > 0 {
					sb.WriteString(" ")
				}
				sb.WriteString(sortStr(x.Sort))
			}
			fmt.Fprintf(p.out, "(declare-fun |%s| (%s) %s)\n", t.Name, sb.String(), sortStr(t.Sort))
		}
		if len(t.Args) == 0 {
			body = "|" + t.Name + "|"
		} else {
			body = nary("|" + t.Name + "|")
		}
	default:
		panic("print: unhandled op " + t.Op.String())
	}
	fmt.Fprintf(p.out, "(define-fun %s () %s %s)\n", tname(t), sortStr(t.Sort), body)
}

func ldexp1(e int) float64 {
	f := 1.0
	for ; e > 0; e-- {
		f *= 2
	}
	for ; e < 0; e++ {
		f /= 2
	}
	return f
}

// Take returns and clears the pending definition text.
func (p *Printer) Take() string {
	s := p.out.String()
	p.out.Reset()
	return s
}

func (p *Printer) Reset() {
	p.defined = map[int]bool{}
	p.ufs = map[string]bool{}
	p.out.Reset()
}

// ---------------------------------------------------------------------

type Stats struct {
	Queries  int
	Sat      int
	Unsat    int
	Unknown  int
	Seconds  float64
	Restarts int
}

// Session is one long-lived incremental solver process.
type Session struct {
	Kind  string // z3 | z3-new | cvc5
	ctx   *Ctx
	pr    *Printer
	cmd   *exec.Cmd
	in    io.WriteCloser
	out   *bufio.Reader
	Stats Stats
	Log   io.Writer
	TimeoutMs int
	nsince int
	open bool
}

func NewSession(kind string, c *Ctx, timeoutMs int) (*Session, error) {
	s := &Session{Kind: kind, ctx: c, TimeoutMs: timeoutMs}
	if err := s.start(); err != nil {
		return nil, err
	}
	return s, nil
}

func (s *Session) start() error {
	var cmd *exec.Cmd
	switch s.Kind {
	case "z3", "z3-new":
		cmd = exec.Command(s.Kind, "-in", "-smt2")
	case "cvc5":
		cmd = exec.Command("cvc5", "--incremental", "--lang=smt2", "--produce-models", fmt.Sprintf("--tlimit-per=%d", s.TimeoutMs))
	default:
		return fmt.Errorf("unknown solver %q", s.Kind)
	}
	in, err := cmd.StdinPipe()
	if err != nil {
		return err
	}
	out, err := cmd.StdoutPipe()
	if err != nil {
		return err
	}
	cmd.Stderr = cmd.Stdout
	if err := cmd.Start(); err != nil {
		return err
	}
	s.cmd, s.in, s.out = cmd, in, bufio.NewReaderSize(out, 1<<16)
	if d := os.Getenv("GOSMT_LOG"); d != "" && s.Log == nil {
		f, _ := os.CreateTemp(d, "session-*.smt2")
		s.Log = f
	}
	s.pr = NewPrinter(s.ctx)
	s.nsince = 0
	s.open = false
	if s.Kind != "cvc5" {
		s.send(fmt.Sprintf("(set-option :timeout %d)\n(set-option :produce-models true)\n", s.TimeoutMs))
	} else {
		s.send("(set-logic ALL)\n")
	}
	return nil
}

func (s *Session) Close() {
	if s.cmd != nil {
		s.in.Close()
		s.cmd.Process.Kill()
		s.cmd.Wait()
		s.cmd = nil
	}
}

func (s *Session) Restart() error {
	s.Close()
	s.Stats.Restarts++
	return s.start()
}

func (s *Session) send(txt string) {
	if s.Log != nil {
		io.WriteString(s.Log, txt)
	}
	io.WriteString(s.in, txt)
}

type lineRes struct {
	l   string
	err error
}

// readLineDeadline reads one line but gives up (the caller restarts the
// process) when the solver ignores its own time limit.
func (s *Session) readLineDeadline(d time.Duration) (string, error, bool) {
	ch := make(chan lineRes, 1)
	out := s.out
	go func() {
		l, err := out.ReadString('\n')
		ch <- lineRes{strings.TrimSpace(l), err}
	}()
	select {
	case r := <-ch:
		return r.l, r.err, false
	case <-time.After(d):
		return "", nil, true
	}
}

func (s *Session) readLine() (string, error) {
	l, err := s.out.ReadString('\n')
	return strings.TrimSpace(l), err
}

// Check decides the conjunction of the given Bool terms. Every query is
// self-contained: the solver is reset (z3) or a scope is pushed (cvc5) and
// only the cone of the assumptions is defined, so z3 picks its one-shot
// tactic pipeline (bit-blasting + SAT for QF_BV) instead of the much slower
// incremental core.
func (s *Session) Check(assumps ...*Term) (res Result, err error) {
	defer func() {
		if r := recover(); r != nil {
			if msg, ok := r.(string); ok && strings.HasPrefix(msg, "print:") {
				res, err = Unknown, fmt.Errorf("%s", msg)
				return
			}
			panic(r)
		}
	}()
	var lits []*Term
	for _, a := range assumps {
		if a.IsTrue() {
			continue
		}
		if a.IsFalse() {
			return Unsat, nil
		}
		if a.Op == OAnd {
			lits = append(lits, a.Args...)
			continue
		}
		lits = append(lits, a)
	}
	s.nsince++
	if s.nsince > 20000 {
		if err := s.Restart(); err != nil {
			return Unknown, err
		}
	}
	s.pr.Reset()
	var names []string
	for _, l := range lits {
		names = append(names, s.lit(l))
	}
	var sb strings.Builder
	if s.Kind == "cvc5" {
		if s.open {
			sb.WriteString("(pop 1)\n")
		}
		sb.WriteString("(push 1)\n")
	} else {
		sb.WriteString("(reset)\n")
		fmt.Fprintf(&sb, "(set-option :timeout %d)\n(set-option :produce-models true)\n", s.TimeoutMs)
	}
	s.open = true
	sb.WriteString(s.pr.Take())
	for _, n := range names {
		sb.WriteString("(assert " + n + ")\n")
	}
	sb.WriteString("(check-sat)\n")
	t0 := time.Now()
	s.send(sb.String())
	for {
		l, err, timedOut := s.readLineDeadline(time.Duration(s.TimeoutMs)*time.Millisecond + 5*time.Second)
		if timedOut {
			s.Stats.Queries++
			s.Stats.Unknown++
			s.Stats.Seconds += time.Since(t0).Seconds()
			s.Restart()
			return Unknown, nil
		}
		if err != nil {
			return Unknown, fmt.Errorf("solver %s died: %v", s.Kind, err)
		}
		if l == "" {
			continue
		}
		s.Stats.Queries++
		s.Stats.Seconds += time.Since(t0).Seconds()
		switch {
		case l == "sat":
			s.Stats.Sat++
			return Sat, nil
		case l == "unsat":
			s.Stats.Unsat++
			return Unsat, nil
		case l == "unknown" || strings.HasPrefix(l, "timeout"):
			s.Stats.Unknown++
			return Unknown, nil
		case strings.Contains(l, "error"):
			s.Stats.Unknown++
			s.Restart()
			return Unknown, fmt.Errorf("solver %s: %s", s.Kind, l)
		default:
			// stray output (e.g. warnings); keep reading
		}
	}
}

func (s *Session) lit(b *Term) string {
	if b.Op == ONot && !b.Args[0].IsConst() {
		return "(not " + s.pr.ref(b.Args[0]) + ")"
	}
	return s.pr.ref(b)
}

// Model fetches values for vars after a Sat answer.
func (s *Session) Model(vars []*Term) (Model, error) {
	m := Model{}
	if len(vars) == 0 {
		return m, nil
	}
	var sb strings.Builder
	sb.WriteString("(get-value (")
	for _, v := range vars {
		sb.WriteString(s.pr.ref(v) + " ")
	}
	sb.WriteString("))\n")
	s.send(s.pr.Take())
	s.send(sb.String())
	txt, err := s.readSexp()
	if err != nil {
		return nil, err
	}
	if strings.Contains(txt, "(error") {
		return nil, fmt.Errorf("solver %s: %s", s.Kind, txt)
	}
	parseValues(txt, m)
	return m, nil
}

func (s *Session) readSexp() (string, error) {
	var sb strings.Builder
	depth := 0
	started := false
	inBar := false
	for {
		b, err := s.out.ReadByte()
		if err != nil {
			return sb.String(), err
		}
		sb.WriteByte(b)
		if b == '|' {
			inBar = !inBar
		}
		if inBar {
			continue
		}
		if b == '(' {
			depth++
			started = true
		} else if b == ')' {
			depth--
			if started && depth == 0 {
				return sb.String(), nil
			}
		}
	}
}

// parseValues reads ((name value) ...) with values #x.., #b.., true, false.
func parseValues(txt string, m Model) {
	toks := tokenize(txt)
	// expect ( ( name val ) ( name val ) ... )
	i := 0
	var parse func() interface{}
	parse = func() interface{} {
		if toks[i] == "(" {
			i++
			var l []interface{}
			for i < len(toks) && toks[i] != ")" {
				l = append(l, parse())
			}
			i++
			return l
		}
		t := toks[i]
		i++
		return t
	}
	if len(toks) == 0 {
		return
	}
	root, _ := parse().([]interface{})
	for _, e := range root {
		pair, ok := e.([]interface{})
		if !ok || len(pair) != 2 {
			continue
		}
		name, ok := pair[0].(string)
		if !ok {
			continue
		}
		name = strings.Trim(name, "|")
		switch v := pair[1].(type) {
		case string:
			switch {
			case v == "true":
				m[name] = 1
			case v == "false":
				m[name] = 0
			case strings.HasPrefix(v, "#x"):
				u, _ := strconv.ParseUint(v[2:], 16, 64)
				m[name] = u
			case strings.HasPrefix(v, "#b"):
				u, _ := strconv.ParseUint(v[2:], 2, 64)
				m[name] = u
			default:
				if n, err := strconv.ParseInt(v, 10, 64); err == nil {
					m[name] = uint64(n)
				} else if f, err := strconv.ParseFloat(v, 64); err == nil {
					m[name] = uint64(int64(math.Round(f)))
				}
			}
		case []interface{}:
			// (- N), (/ a b) and nestings: numerals of Int/Real sort, rounded to the nearest integer
			if len(v) == 2 {
				// (- N) with an integer numeral: exact
				if s0, ok := v[0].(string); ok && s0 == "-" {
					if s1, ok := v[1].(string); ok {
						if n, err := strconv.ParseUint(s1, 10, 64); err == nil {
							m[name] = uint64(-int64(n))
							continue
						}
					}
				}
			}
			if f, ok := evalNumeral(v); ok {
				m[name] = uint64(int64(math.Round(f)))
				continue
			}
			// (_ bvN w)
			if len(v) == 3 {
				if s0, ok := v[0].(string); ok && s0 == "_" {
					if s1, ok := v[1].(string); ok && strings.HasPrefix(s1, "bv") {
						u, _ := strconv.ParseUint(s1[2:], 10, 64)
						m[name] = u
					}
				}
			}
		}
	}
}

// evalNumeral evaluates (- x), (/ a b), (+ ...), (* ...) over decimal numerals.
func evalNumeral(v interface{}) (float64, bool) {
	switch t := v.(type) {
	case string:
		f, err := strconv.ParseFloat(strings.TrimSuffix(t, "?"), 64)
		return f, err == nil
	case []interface{}:
		if len(t) < 2 {
			return 0, false
		}
		op, ok := t[0].(string)
		if !ok {
			return 0, false
		}
		var xs []float64
		for _, a := range t[1:] {
			f, ok := evalNumeral(a)
			if !ok {
				return 0, false
			}
			xs = append(xs, f)
		}
		switch op {
		case "-":
			if len(xs) == 1 {
				return -xs[0], true
			}
			return xs[0] - xs[1], true
		case "/":
			if len(xs) == 2 && xs[1] != 0 {
				return xs[0] / xs[1], true
			}
		case "+":
			r := 0.0
			for _, x := range xs {
				r += x
			}
			return r, true
		case "*":
			r := 1.0
			for _, x := range xs {
				r *= x
			}
			return r, true
		}
	}
	return 0, false
}

func tokenize(s string) []string {
	var toks []string
	i := 0
	for i < len(s) {
		ch := s[i]
		switch {
		case ch == '(' || ch == ')':
			toks = append(toks, string(ch))
			i++
		case ch == ' ' || ch == '\n' || ch == '\t' || ch == '\r':
			i++
		case ch == '|':
			j := strings.IndexByte(s[i+1:], '|')
			toks = append(toks, s[i:i+j+2])
			i += j + 2
		default:
			j := i
			for j < len(s) && !strings.ContainsRune("() \n\t\r", rune(s[j])) {
				j++
			}
			toks = append(toks, s[i:j])
			i = j
		}
	}
	return toks
}

// ---------------------------------------------------------------------

// OneShot runs a fresh solver process on the conjunction of asserts, with a
// wall-clock limit. It returns the verdict and (if sat) a model of vars.
func OneShot(kind string, c *Ctx, asserts []*Term, vars []*Term, timeout time.Duration, dir string) (Result, Model, float64, error) {
	p := NewPrinter(c)
	var sb strings.Builder
	if kind == "cvc5" {
		sb.WriteString("(set-logic ALL)\n")
	}
	sb.WriteString("(set-option :produce-models true)\n")
	var lits []string
	for _, a := range asserts {
		lits = append(lits, p.ref(a))
	}
	var vnames []string
	for _, v := range vars {
		vnames = append(vnames, p.ref(v))
	}
	sb.WriteString(p.Take())
	for _, l := range lits {
		sb.WriteString("(assert " + l + ")\n")
	}
	sb.WriteString("(check-sat)\n")
	f, err := os.CreateTemp(dir, "q*.smt2")
	if err != nil {
		return Unknown, nil, 0, err
	}
	defer os.Remove(f.Name())
	f.WriteString(sb.String())
	if len(vnames) > 0 {
		// get-value fails after unsat; that error is ignored below
		f.WriteString("(get-value (" + strings.Join(vnames, " ") + "))\n")
	}
	f.Close()
	var cmd *exec.Cmd
	secs := int(timeout.Seconds())
	if secs < 1 {
		secs = 1
	}
	switch kind {
	case "z3", "z3-new":
		cmd = exec.Command(kind, fmt.Sprintf("-T:%d", secs), "-smt2", f.Name())
	case "cvc5":
		cmd = exec.Command("cvc5", "--lang=smt2", "--produce-models", fmt.Sprintf("--tlimit=%d", secs*1000), f.Name())
	default:
		return Unknown, nil, 0, fmt.Errorf("unknown solver %q", kind)
	}
	t0 := time.Now()
	outb, _ := cmd.CombinedOutput()
	el := time.Since(t0).Seconds()
	out := string(outb)
	first := strings.TrimSpace(out)
	if i := strings.IndexByte(first, '\n'); i >= 0 {
		first = strings.TrimSpace(first[:i])
	}
	switch first {
	case "sat":
		m := Model{}
		if i := strings.Index(out, "(("); i >= 0 {
			parseValues(out[i:], m)
		}
		return Sat, m, el, nil
	case "unsat":
		return Unsat, nil, el, nil
	case "unknown", "timeout":
		return Unknown, nil, el, nil
	}
	if strings.Contains(out, "interrupted") || strings.Contains(out, "timeout") || strings.Contains(out, "time limit") {
		return Unknown, nil, el, nil
	}
	return Unknown, nil, el, fmt.Errorf("solver %s: %s", kind, strings.TrimSpace(out))
}
