package ssaexec

import (
	"fmt"
	"go/token"
	"go/types"
	"unicode/utf8"

	"golang.org/x/tools/go/ssa"

	"gosmt/smt"
)

func (x *Exec) unop(fr *frame, in *ssa.UnOp) Value {
	v := x.get(fr, in.X)
	c := x.C
	switch in.Op {
	case token.MUL: // load
		p, _ := v.(*Cell)
		if p == nil {
			x.rtPanic("invalid memory address or nil pointer dereference")
		}
		return x.load(p)
	case token.NOT:
		return c.Not(v.(*smt.Term))
	case token.SUB:
		t := v.(*smt.Term)
		if t.Sort.K == smt.KF64 {
			return c.FNeg(t)
		}
		return c.Neg(t)
	case token.XOR:
		return c.BNot(v.(*smt.Term))
	case token.ARROW:
		val, ok := x.chanRecv(v.(*ChanV), in.X.Type().Underlying().(*types.Chan).Elem())
		if in.CommaOk {
			return Tuple{val, c.BoolC(ok)}
		}
		return val
	}
	panic(x.unsupported("unop %v", in.Op))
}

func (x *Exec) binop(op token.Token, t types.Type, a, b Value, bt types.Type) Value {
	c := x.C
	switch op {
	case token.EQL:
		return x.equal(t, a, b)
	case token.NEQ:
		return c.Not(x.equal(t, a, b))
	}
	if sa, ok := a.(Str); ok {
		sb := b.(Str)
		switch op {
		case token.ADD:
			if sa.Concrete() && sb.Concrete() {
				return Str{S: sa.S + sb.S}
			}
			return x.mkStr(append(append([]*smt.Term{}, x.strBytes(sa)...), x.strBytes(sb)...))
		case token.LSS, token.LEQ, token.GTR, token.GEQ:
			as, ok1 := x.concreteStr(sa)
			bs, ok2 := x.concreteStr(sb)
			if !ok1 || !ok2 {
				panic(x.unsupported("ordering of symbolic strings"))
			}
			switch op {
			case token.LSS:
				return c.BoolC(as < bs)
			case token.LEQ:
				return c.BoolC(as <= bs)
			case token.GTR:
				return c.BoolC(as > bs)
			default:
				return c.BoolC(as >= bs)
			}
		}
		panic(x.unsupported("string binop %v", op))
	}
	at, ok := a.(*smt.Term)
	if !ok {
		panic(x.unsupported("binop %v on %T", op, a))
	}
	btm := b.(*smt.Term)
	if at.Sort.K == smt.KF64 {
		switch op {
		case token.ADD:
			return c.FAdd(at, btm)
		case token.SUB:
			return c.FSub(at, btm)
		case token.MUL:
			return c.FMul(at, btm)
		case token.QUO:
			return c.FDiv(at, btm)
		case token.LSS:
			return c.FLt(at, btm)
		case token.LEQ:
			return c.FLe(at, btm)
		case token.GTR:
			return c.FGt(at, btm)
		case token.GEQ:
			return c.FGe(at, btm)
		}
		panic(x.unsupported("float binop %v", op))
	}
	if at.Sort.K == smt.KBool {
		switch op {
		case token.AND, token.LAND:
			return c.And(at, btm)
		case token.OR, token.LOR:
			return c.Or(at, btm)
		}
		panic(x.unsupported("bool binop %v", op))
	}
	w, signed := x.intWidth(t)
	switch op {
	case token.ADD:
		return c.Add(at, btm)
	case token.SUB:
		return c.Sub(at, btm)
	case token.MUL:
		return c.Mul(at, btm)
	case token.QUO, token.REM:
		z := c.Eq(btm, c.BVC(w, 0))
		if x.Branch(z) {
			x.rtPanic("integer divide by zero")
		}
		if op == token.QUO {
			if signed {
				return c.SDiv(at, btm)
			}
			return c.UDiv(at, btm)
		}
		if signed {
			return c.SRem(at, btm)
		}
		return c.URem(at, btm)
	case token.AND:
		return c.BAnd(at, btm)
	case token.OR:
		return c.BOr(at, btm)
	case token.XOR:
		return c.BXor(at, btm)
	case token.AND_NOT:
		return c.BAnd(at, c.BNot(btm))
	case token.SHL, token.SHR:
		// shift count has its own type
		bw, bsigned := x.intWidth(bt)
		if bsigned {
			neg := c.SLt(btm, c.BVC(bw, 0))
			if x.Branch(neg) {
				x.rtPanic("negative shift amount")
			}
		}
		var amt *smt.Term
		var over *smt.Term = c.False()
		if bw > w {
			over = c.Not(c.ULt(btm, c.BVC(bw, uint64(w))))
			amt = c.Extract(btm, w-1, 0)
		} else {
			amt = c.ZExt(btm, w)
		}
		var r, ov *smt.Term
		if op == token.SHL {
			r, ov = c.Shl(at, amt), c.BVC(w, 0)
		} else if signed {
			r = c.AShr(at, amt)
			ov = c.AShr(at, c.BVC(w, uint64(w-1)))
		} else {
			r, ov = c.LShr(at, amt), c.BVC(w, 0)
		}
		return c.Ite(over, ov, r)
	case token.LSS:
		if signed {
			return c.SLt(at, btm)
		}
		return c.ULt(at, btm)
	case token.LEQ:
		if signed {
			return c.SLe(at, btm)
		}
		return c.ULe(at, btm)
	case token.GTR:
		if signed {
			return c.SLt(btm, at)
		}
		return c.ULt(btm, at)
	case token.GEQ:
		if signed {
			return c.SLe(btm, at)
		}
		return c.ULe(btm, at)
	}
	panic(x.unsupported("int binop %v", op))
}

func (x *Exec) convert(from, to types.Type, v Value) Value {
	c := x.C
	fu, tu := from.Underlying(), to.Underlying()
	switch {
	case isInteger(fu) && isInteger(tu):
		_, fs := x.intWidth(fu)
		tw, _ := x.intWidth(tu)
		t := v.(*smt.Term)
		if fs {
			return c.SExt(t, tw)
		}
		return c.ZExt(t, tw)
	case isInteger(fu) && isFloat(tu):
		_, fs := x.intWidth(fu)
		if fs {
			return c.FFromSInt(v.(*smt.Term))
		}
		return c.FFromUInt(v.(*smt.Term))
	case isFloat(fu) && isInteger(tu):
		tw, ts := x.intWidth(tu)
		if !ts {
			x.note("float->unsigned conversion modelled as signed")
		}
		return c.FToSInt(v.(*smt.Term), tw)
	case isFloat(fu) && isFloat(tu):
		if tu.(*types.Basic).Kind() == types.Float32 || fu.(*types.Basic).Kind() == types.Float32 {
			if t := v.(*smt.Term); t.IsConst() {
				if tu.(*types.Basic).Kind() == types.Float32 {
					return c.FC(float64(float32(t.Float())))
				}
				return t
			}
			panic(x.unsupported("symbolic float32 conversion"))
		}
		return v
	case isString(fu) && isString(tu):
		return v
	case isInteger(fu) && isString(tu):
		t := v.(*smt.Term)
		if !t.IsConst() {
			panic(x.unsupported("symbolic rune to string"))
		}
		return Str{S: string(rune(t.Int()))}
	}
	// string <-> []byte / []rune
	if isString(fu) {
		if sl, ok := tu.(*types.Slice); ok {
			s := v.(Str)
			if b, ok := sl.Elem().Underlying().(*types.Basic); ok && b.Kind() == types.Uint8 {
				bs := x.strBytes(s)
				arr := x.newArray(sl.Elem(), len(bs))
				for i, t := range bs {
					arr.Sub[i].V = t
				}
				return SliceV{Arr: arr, Len: len(bs), Cap: len(bs)}
			}
			cs, ok := x.concreteStr(s)
			if !ok {
				panic(x.unsupported("symbolic string to []rune"))
			}
			rs := []rune(cs)
			arr := x.newArray(sl.Elem(), len(rs))
			for i, r := range rs {
				arr.Sub[i].V = c.IntC(32, int64(r))
			}
			return SliceV{Arr: arr, Len: len(rs), Cap: len(rs)}
		}
	}
	if isString(tu) {
		if sl, ok := fu.(*types.Slice); ok {
			s := v.(SliceV)
			if b, ok := sl.Elem().Underlying().(*types.Basic); ok && b.Kind() == types.Uint8 {
				bs := make([]*smt.Term, s.Len)
				for i := 0; i < s.Len; i++ {
					bs[i] = s.Arr.Sub[s.Off+i].V.(*smt.Term)
				}
				return x.mkStr(bs)
			}
			var out []byte
			for i := 0; i < s.Len; i++ {
				t := s.Arr.Sub[s.Off+i].V.(*smt.Term)
				if !t.IsConst() {
					panic(x.unsupported("symbolic []rune to string"))
				}
				out = utf8.AppendRune(out, rune(t.Int()))
			}
			return Str{S: string(out)}
		}
	}
	// pointer <-> unsafe.Pointer
	if _, ok := v.(*Cell); ok {
		return v
	}
	panic(x.unsupported("convert %v -> %v", from, to))
}

func (x *Exec) callBuiltin(b *ssa.Builtin, args []Value, site ssa.CallInstruction) Value {
	c := x.C
	switch b.Name() {
	case "len":
		switch v := args[0].(type) {
		case SliceV:
			return c.IntC(64, int64(v.Len))
		case Str:
			return c.IntC(64, int64(v.Len()))
		case *MapV:
			return c.IntC(64, int64(v.Len()))
		case *ArrayV:
			return c.IntC(64, int64(len(v.E)))
		case *Cell:
			return c.IntC(64, int64(len(v.Sub)))
		case *ChanV:
			if v == nil {
				return c.IntC(64, 0)
			}
			return c.IntC(64, int64(len(v.buf)))
		}
	case "cap":
		switch v := args[0].(type) {
		case SliceV:
			return c.IntC(64, int64(v.Cap))
		case *ArrayV:
			return c.IntC(64, int64(len(v.E)))
		case *Cell:
			return c.IntC(64, int64(len(v.Sub)))
		case *ChanV:
			if v == nil {
				return c.IntC(64, 0)
			}
			return c.IntC(64, int64(v.cap))
		}
	case "append":
		s := args[0].(SliceV)
		var elems []Value
		var et types.Type
		if site != nil {
			et = site.Common().Args[0].Type().Underlying().(*types.Slice).Elem()
		}
		switch a := args[1].(type) {
		case SliceV:
			for i := 0; i < a.Len; i++ {
				elems = append(elems, x.load(a.Arr.Sub[a.Off+i]))
			}
		case Str:
			for _, t := range x.strBytes(a) {
				elems = append(elems, t)
			}
		default:
			panic(x.unsupported("append arg %T", a))
		}
		return x.appendValues(s, et, elems)
	case "copy":
		d := args[0].(SliceV)
		var src []Value
		switch a := args[1].(type) {
		case SliceV:
			for i := 0; i < a.Len; i++ {
				src = append(src, x.load(a.Arr.Sub[a.Off+i]))
			}
		case Str:
			for _, t := range x.strBytes(a) {
				src = append(src, t)
			}
		}
		n := len(src)
		if d.Len < n {
			n = d.Len
		}
		for i := 0; i < n; i++ {
			x.store(d.Arr.Sub[d.Off+i], src[i])
		}
		return c.IntC(64, int64(n))
	case "delete":
		if x.spec > 0 {
			panic(specAbort{"map delete inside a speculated block"})
		}
		m := args[0].(*MapV)
		if m != nil {
			m.del(x.keyOf(x.concreteKey(args[1])))
		}
		return nil
	case "panic":
		panic(&targetPanic{v: args[0]})
	case "recover":
		return x.doRecover()
	case "print", "println":
		return nil
	case "close":
		x.chanClose(args[0].(*ChanV))
		return nil
	case "min", "max":
		panic(x.unsupported("builtin %s", b.Name()))
	case "ssa:wrapnilchk":
		if isNilValue(args[0]) {
			x.rtPanic("value method called using nil pointer")
		}
		return args[0]
	}
	panic(x.unsupported("builtin %s(%T)", b.Name(), args[0]))
}

func (x *Exec) doRecover() Value {
	// recover() is effective when called directly by a deferred function
	// whose caller frame is panicking.
	if len(x.stack) < 2 {
		return IfaceV{}
	}
	fr := x.stack[len(x.stack)-1].caller
	if fr == nil || !fr.panicking {
		return IfaceV{}
	}
	fr.panicking = false
	tp, _ := fr.panicV.(*targetPanic)
	fr.panicV = nil
	if tp == nil {
		return IfaceV{}
	}
	if iv, ok := tp.v.(IfaceV); ok {
		return iv
	}
	return IfaceV{T: types.Typ[types.String], V: Str{S: fmt.Sprint(tp.v)}}
}


// appendValues implements append(s, elems...) for element type et.
func (x *Exec) appendValues(s SliceV, et types.Type, elems []Value) SliceV {
	if len(elems) == 0 {
		return s
	}
	if s.Arr != nil && s.Len+len(elems) <= s.Cap {
		for i, e := range elems {
			x.store(s.Arr.Sub[s.Off+s.Len+i], e)
		}
		return SliceV{Arr: s.Arr, Off: s.Off, Len: s.Len + len(elems), Cap: s.Cap}
	}
	ncap := s.Len + len(elems)
	if ncap < 2*s.Cap {
		ncap = 2 * s.Cap
	}
	if et == nil {
		panic(x.unsupported("append without site type"))
	}
	arr := x.newArray(et, ncap)
	for i := 0; i < s.Len; i++ {
		x.store(arr.Sub[i], x.load(s.Arr.Sub[s.Off+i]))
	}
	for i, e := range elems {
		x.store(arr.Sub[s.Len+i], e)
	}
	return SliceV{Arr: arr, Off: 0, Len: s.Len + len(elems), Cap: ncap}
}
