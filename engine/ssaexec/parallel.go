package ssaexec

import (
	"time"
	"fmt"
	"sync"

	"golang.org/x/tools/go/ssa"

	"gosmt/smt"
)

// WorkerFactory builds one executor (own term context and solver session).
type WorkerFactory func() (*Exec, error)

type ParallelStats struct {
	Solver   smt.Stats
	Funcs    map[string]bool
	Intr     map[string]bool
	Notes    map[string]bool
	Lemmas   map[string]bool
	Merged   map[string]int
	IfConv   int
	Poisoned int
	Undecided int
	Terms    int
}

// ExploreDeadline, when non-zero, is the wall-clock instant after which no
// further path is started: the harness is reported as truncated (bound not
// covered, the check is broken unless a violation was already found), so a
// change that makes exploration explode ends with a report instead of never.
var ExploreDeadline time.Time

// ParallelExplore explores all paths of fn with n workers sharing one stack
// of decision prefixes.
func ParallelExplore(fn *ssa.Function, n int, mk WorkerFactory, maxPaths int, wantSamples int) (*Report, *ParallelStats, error) {
	rep := &Report{Harness: fn.Name(), Ends: map[string]int{}, Reached: map[string]int{}}
	st := &ParallelStats{Funcs: map[string]bool{}, Intr: map[string]bool{}, Notes: map[string]bool{}, Lemmas: map[string]bool{}, Merged: map[string]int{}}
	var mu sync.Mutex
	cond := sync.NewCond(&mu)
	work := [][]int{nil}
	busy := 0
	var firstErr error
	seenLabel := map[string]bool{}
	var wg sync.WaitGroup
	for w := 0; w < n; w++ {
		wg.Add(1)
		go func() {
			defer wg.Done()
			x, err := mk()
			if err != nil {
				mu.Lock()
				if firstErr == nil {
					firstErr = err
				}
				cond.Broadcast()
				mu.Unlock()
				return
			}
			defer func() {
				mu.Lock()
				st.Solver.Queries += x.S.Stats.Queries
				st.Solver.Sat += x.S.Stats.Sat
				st.Solver.Unsat += x.S.Stats.Unsat
				st.Solver.Unknown += x.S.Stats.Unknown
				st.Solver.Seconds += x.S.Stats.Seconds
				st.Terms += x.C.NumTerms()
				for k := range x.Funcs {
					st.Funcs[k] = true
				}
				for k := range x.Intrinsics {
					st.Intr[k] = true
				}
				for k := range x.Notes {
					st.Notes[k] = true
				}
				for k := range x.Lemmas {
					st.Lemmas[k] = true
				}
				for k, v := range x.Merged {
					st.Merged[k] += v
				}
				st.IfConv += x.IfConv
				st.Poisoned += x.Poisoned
				st.Undecided += x.Undecided
				mu.Unlock()
				x.S.Close()
			}()
			npaths := 0
			for {
				mu.Lock()
				for len(work) == 0 && busy > 0 && firstErr == nil {
					cond.Wait()
				}
				if firstErr != nil || len(work) == 0 || (maxPaths > 0 && rep.Paths >= maxPaths) ||
					(!ExploreDeadline.IsZero() && time.Now().After(ExploreDeadline)) {
					if len(work) > 0 && firstErr == nil {
						rep.Truncated = true
					}
					cond.Broadcast()
					mu.Unlock()
					return
				}
				p := work[len(work)-1]
				work = work[:len(work)-1]
				busy++
				mu.Unlock()

				npaths++
				if npaths%300 == 0 {
					// bound the growth of the term table and the solver's state
					x.C = smt.NewCtx()
					x.S.Close()
					s, err := smt.NewSession(x.S.Kind, x.C, x.S.TimeoutMs)
					if err == nil {
						s.Stats = x.S.Stats
						x.S = s
					}
				}
				res, forks, err := x.RunPath(fn, p)
				var sample *Sample
				if err == nil && res.End == "ok" {
					mu.Lock()
					need := len(rep.Samples) < wantSamples
					mu.Unlock()
					if need && x.safeQuery() == smt.Sat {
						sample = &Sample{Harness: fn.Name(), Path: res.Decisions, End: res.End, Tape: x.tape(x.fullModel())}
					}
				}
				mu.Lock()
				busy--
				if err != nil {
					if firstErr == nil {
						firstErr = fmt.Errorf("%s: %v (decisions %v)", fn.Name(), err, res.Decisions)
					}
				} else {
					rep.Paths++
					rep.Steps += res.Steps
					rep.Ends[res.End]++
					for _, l := range res.Reached {
						rep.Reached[l]++
					}
					for _, f := range res.Findings {
						k := f.Kind + "/" + f.Label
						if !seenLabel[k] {
							seenLabel[k] = true
							rep.Findings = append(rep.Findings, f)
						}
					}
					if sample != nil && len(rep.Samples) < wantSamples {
						rep.Samples = append(rep.Samples, *sample)
					}
					work = append(work, forks...)
				}
				cond.Broadcast()
				mu.Unlock()
			}
		}()
	}
	wg.Wait()
	return rep, st, firstErr
}
