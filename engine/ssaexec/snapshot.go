package ssaexec

import (
	"fmt"
	"sort"
	"strings"

	"golang.org/x/tools/go/ssa"

	"gosmt/smt"
)

// Deep snapshots of everything reachable from a set of roots (closures with
// their captured variables, pointers, maps, slices) and from the package-level
// variables of the module under test. Used for inductive "one call leaves the
// state unchanged" harnesses (C10): if no call can change the state a
// transformer reads, every call history returns what a fresh one returns.

type snapRoot struct {
	sig   string
	terms []*smt.Term
}

type snapshot struct {
	roots map[string]*snapRoot
}

type snapWalker struct {
	x     *Exec
	sb    strings.Builder
	terms []*smt.Term
	cells map[*Cell]int
	maps  map[*MapV]int
	clos  map[*Closure]int
	chans map[*ChanV]int
}

func (w *snapWalker) walk(v Value) {
	switch t := v.(type) {
	case nil:
		w.sb.WriteString("nil;")
	case *smt.Term:
		if t.IsConst() {
			fmt.Fprintf(&w.sb, "c%v;", t)
		} else {
			w.sb.WriteString("t;")
			w.terms = append(w.terms, t)
		}
	case Str:
		if t.Concrete() {
			fmt.Fprintf(&w.sb, "s%q;", t.S)
		} else {
			fmt.Fprintf(&w.sb, "S%d;", len(t.B))
			w.terms = append(w.terms, t.B...)
		}
	case NumTok:
		w.sb.WriteString("num;")
		w.terms = append(w.terms, t.F)
	case *Cell:
		if t == nil {
			w.sb.WriteString("nilp;")
			return
		}
		if k, ok := w.cells[t]; ok {
			fmt.Fprintf(&w.sb, "@%d;", k)
			return
		}
		w.cells[t] = len(w.cells)
		fmt.Fprintf(&w.sb, "&%d{", len(w.cells)-1)
		if t.Sub != nil {
			for _, s := range t.Sub {
				w.walk(s)
			}
		} else {
			w.walk(t.V)
		}
		w.sb.WriteString("}")
	case *StructV:
		w.sb.WriteString("st{")
		for _, f := range t.F {
			w.walk(f)
		}
		w.sb.WriteString("}")
	case *ArrayV:
		w.sb.WriteString("ar{")
		for _, e := range t.E {
			w.walk(e)
		}
		w.sb.WriteString("}")
	case SliceV:
		fmt.Fprintf(&w.sb, "sl[%d,%d,%d]", t.Off, t.Len, t.Cap)
		if t.Arr != nil {
			w.walk(t.Arr)
		}
	case IfaceV:
		if t.T == nil {
			w.sb.WriteString("nili;")
			return
		}
		fmt.Fprintf(&w.sb, "i<%s>", t.T.String())
		w.walk(t.V)
	case *MapV:
		if t == nil {
			w.sb.WriteString("nilm;")
			return
		}
		if k, ok := w.maps[t]; ok {
			fmt.Fprintf(&w.sb, "@m%d;", k)
			return
		}
		w.maps[t] = len(w.maps)
		w.sb.WriteString("map{")
		for _, i := range t.live() {
			w.walk(t.Keys[i])
			w.sb.WriteString("=>")
			w.walk(t.Vals[i])
		}
		w.sb.WriteString("}")
	case *Closure:
		if t == nil {
			w.sb.WriteString("nilf;")
			return
		}
		if k, ok := w.clos[t]; ok {
			fmt.Fprintf(&w.sb, "@f%d;", k)
			return
		}
		w.clos[t] = len(w.clos)
		fmt.Fprintf(&w.sb, "fn<%s>{", t.Fn.String())
		for _, e := range t.Env {
			w.walk(e)
		}
		w.sb.WriteString("}")
	case *ssa.Function:
		if t == nil {
			w.sb.WriteString("nilf;")
		} else {
			fmt.Fprintf(&w.sb, "fn<%s>;", t.String())
		}
	case Tuple:
		for _, e := range t {
			w.walk(e)
		}
	case rtypeV:
		fmt.Fprintf(&w.sb, "rt<%s>;", t.T.String())
	case *ChanV:
		if k, ok := w.chans[t]; ok {
			fmt.Fprintf(&w.sb, "@ch%d;", k)
			return
		}
		w.chans[t] = len(w.chans)
		w.sb.WriteString("chan;")
	default:
		fmt.Fprintf(&w.sb, "?%T;", v)
	}
}

// takeSnapshot records the explicit roots and every initialised package-level
// variable of the module under test (harness variables excluded).
func (x *Exec) takeSnapshot(roots []Value, modPath string) *snapshot {
	s := &snapshot{roots: map[string]*snapRoot{}}
	one := func(name string, v Value) {
		w := &snapWalker{x: x, cells: map[*Cell]int{}, maps: map[*MapV]int{}, clos: map[*Closure]int{}, chans: map[*ChanV]int{}}
		w.walk(v)
		s.roots[name] = &snapRoot{sig: w.sb.String(), terms: w.terms}
	}
	for i, r := range roots {
		one(fmt.Sprintf("arg%d", i), r)
	}
	for g, c := range x.globals {
		if g.Pkg == nil || g.Pkg.Pkg == nil || !strings.HasPrefix(g.Pkg.Pkg.Path(), modPath) {
			continue
		}
		if strings.HasPrefix(g.Name(), "v") || strings.HasPrefix(g.Name(), "VHook") || strings.HasPrefix(g.Name(), "init$") {
			continue
		}
		one("global "+g.Pkg.Pkg.Path()+"."+g.Name(), c)
	}
	return s
}

// sameSnapshot: a formula that holds iff the two snapshots agree on every root
// they share; the names of roots whose shape differs are returned too.
func (x *Exec) sameSnapshot(a, b *snapshot) (*smt.Term, []string) {
	var names []string
	for n := range a.roots {
		if _, ok := b.roots[n]; ok {
			names = append(names, n)
		}
	}
	sort.Strings(names)
	var cs []*smt.Term
	var diff []string
	for _, n := range names {
		ra, rb := a.roots[n], b.roots[n]
		if ra.sig != rb.sig || len(ra.terms) != len(rb.terms) {
			diff = append(diff, n)
			continue
		}
		for i := range ra.terms {
			p, q := ra.terms[i], rb.terms[i]
			if p == q {
				continue
			}
			switch {
			case p.Sort.K == smt.KF64 && smt.KeyBacked(p) && smt.KeyBacked(q):
				cs = append(cs, x.C.Eq(x.C.FKey(p), x.C.FKey(q)))
			case p.Sort.K == smt.KF64:
				cs = append(cs, x.C.Eq(x.C.FBits(p), x.C.FBits(q)))
			default:
				cs = append(cs, x.C.Eq(p, q))
			}
		}
	}
	if len(diff) > 0 {
		return x.C.False(), diff
	}
	return x.C.And(cs...), nil
}
