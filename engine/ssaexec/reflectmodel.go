package ssaexec

import (
	"go/types"
	"reflect"

	"golang.org/x/tools/go/ssa"

	"gosmt/smt"
)

// A small model of package reflect: the subset used by proj.NewSR and
// (*proj.SR).Equal. A reflect.Value is an rvalV: an addressable cell (or a
// plain value) with its static type.
type rvalV struct {
	C *Cell // addressable storage, or nil
	V Value // value when not addressable
	T types.Type
}

func (r rvalV) load(x *Exec) Value {
	if r.C != nil {
		return x.load(r.C)
	}
	return r.V
}

func kindOf(t types.Type) reflect.Kind {
	switch u := t.Underlying().(type) {
	case *types.Basic:
		switch u.Kind() {
		case types.Bool:
			return reflect.Bool
		case types.Int:
			return reflect.Int
		case types.Int8:
			return reflect.Int8
		case types.Int16:
			return reflect.Int16
		case types.Int32:
			return reflect.Int32
		case types.Int64:
			return reflect.Int64
		case types.Uint:
			return reflect.Uint
		case types.Uint8:
			return reflect.Uint8
		case types.Uint16:
			return reflect.Uint16
		case types.Uint32:
			return reflect.Uint32
		case types.Uint64:
			return reflect.Uint64
		case types.Float32:
			return reflect.Float32
		case types.Float64:
			return reflect.Float64
		case types.String:
			return reflect.String
		}
	case *types.Pointer:
		return reflect.Ptr
	case *types.Slice:
		return reflect.Slice
	case *types.Struct:
		return reflect.Struct
	case *types.Map:
		return reflect.Map
	case *types.Interface:
		return reflect.Interface
	case *types.Array:
		return reflect.Array
	case *types.Signature:
		return reflect.Func
	}
	return reflect.Invalid
}

func init() {
	reg := func(name string, f intrinsic) { intrinsics[name] = f }
	reg("reflect.ValueOf", func(x *Exec, _ *ssa.Function, a []Value) Value {
		iv := a[0].(IfaceV)
		if iv.T == nil {
			return rvalV{}
		}
		return rvalV{V: iv.V, T: iv.T}
	})
	reg("reflect.Indirect", func(x *Exec, _ *ssa.Function, a []Value) Value {
		r := a[0].(rvalV)
		if p, ok := r.T.Underlying().(*types.Pointer); ok {
			c, _ := r.load(x).(*Cell)
			if c == nil {
				return rvalV{}
			}
			return rvalV{C: c, T: p.Elem()}
		}
		return r
	})
	reg("(reflect.Value).Elem", func(x *Exec, _ *ssa.Function, a []Value) Value {
		r := a[0].(rvalV)
		switch u := r.T.Underlying().(type) {
		case *types.Pointer:
			c, _ := r.load(x).(*Cell)
			if c == nil {
				return rvalV{}
			}
			return rvalV{C: c, T: u.Elem()}
		case *types.Interface:
			iv := r.load(x).(IfaceV)
			return rvalV{V: iv.V, T: iv.T}
		}
		panic(x.unsupported("reflect.Value.Elem of %v", r.T))
	})
	reg("(reflect.Value).NumField", func(x *Exec, _ *ssa.Function, a []Value) Value {
		r := a[0].(rvalV)
		st, ok := r.T.Underlying().(*types.Struct)
		if !ok {
			x.rtPanic("reflect: call of reflect.Value.NumField on non-struct Value")
		}
		return x.C.IntC(64, int64(st.NumFields()))
	})
	reg("(reflect.Value).Field", func(x *Exec, _ *ssa.Function, a []Value) Value {
		r := a[0].(rvalV)
		i := int(a[1].(*smt.Term).Int())
		st := r.T.Underlying().(*types.Struct)
		if r.C != nil {
			return rvalV{C: r.C.Sub[i], T: st.Field(i).Type()}
		}
		return rvalV{V: r.V.(*StructV).F[i], T: st.Field(i).Type()}
	})
	reg("(reflect.Value).Type", func(x *Exec, fn *ssa.Function, a []Value) Value {
		r := a[0].(rvalV)
		return IfaceV{T: fn.Signature.Results().At(0).Type(), V: rtypeV{T: r.T}}
	})
	reg("(reflect.Value).Kind", func(x *Exec, _ *ssa.Function, a []Value) Value {
		r := a[0].(rvalV)
		if r.T == nil {
			return x.C.BVC(64, uint64(reflect.Invalid))
		}
		return x.C.BVC(64, uint64(kindOf(r.T)))
	})
	reg("(reflect.Value).SetFloat", func(x *Exec, _ *ssa.Function, a []Value) Value {
		r := a[0].(rvalV)
		if r.C == nil {
			x.rtPanic("reflect: reflect.Value.SetFloat using unaddressable value")
		}
		x.store(r.C, a[1])
		return nil
	})
	get := func(x *Exec, a []Value) Value { return a[0].(rvalV).load(x) }
	reg("(reflect.Value).Float", func(x *Exec, _ *ssa.Function, a []Value) Value { return get(x, a) })
	reg("(reflect.Value).Bool", func(x *Exec, _ *ssa.Function, a []Value) Value { return get(x, a) })
	reg("(reflect.Value).String", func(x *Exec, _ *ssa.Function, a []Value) Value {
		v := get(x, a)
		if s, ok := v.(Str); ok {
			return s
		}
		return Str{S: "<reflect value>"}
	})
	reg("(reflect.Value).Int", func(x *Exec, _ *ssa.Function, a []Value) Value {
		r := a[0].(rvalV)
		t := r.load(x).(*smt.Term)
		return x.C.SExt(t, 64)
	})
	reg("(reflect.Value).Len", func(x *Exec, _ *ssa.Function, a []Value) Value {
		switch v := get(x, a).(type) {
		case SliceV:
			return x.C.IntC(64, int64(v.Len))
		case Str:
			return x.C.IntC(64, int64(v.Len()))
		case *MapV:
			return x.C.IntC(64, int64(v.Len()))
		}
		panic(x.unsupported("reflect.Value.Len"))
	})
	reg("(reflect.Value).Index", func(x *Exec, _ *ssa.Function, a []Value) Value {
		r := a[0].(rvalV)
		i := int(a[1].(*smt.Term).Int())
		sl := r.T.Underlying().(*types.Slice)
		s := r.load(x).(SliceV)
		if i < 0 || i >= s.Len {
			x.rtPanic("reflect: slice index out of range")
		}
		return rvalV{C: s.Arr.Sub[s.Off+i], T: sl.Elem()}
	})
	reg("(reflect.Value).Pointer", func(x *Exec, _ *ssa.Function, a []Value) Value {
		r := a[0].(rvalV)
		switch v := r.load(x).(type) {
		case *ssa.Function:
			return x.C.BVC(64, uint64(v.Pos())+1)
		case *Closure:
			if v == nil {
				return x.C.BVC(64, 0)
			}
			return x.C.BVC(64, uint64(v.Fn.Pos())+1)
		case *Cell:
			if v == nil {
				return x.C.BVC(64, 0)
			}
			return x.C.BVC(64, uint64(v.ID)+1<<40)
		}
		panic(x.unsupported("reflect.Value.Pointer of %T", r.load(x)))
	})
	// reflect.Type methods used through the rtypeV model
	reg("(*reflect.rtype).Kind", func(x *Exec, _ *ssa.Function, a []Value) Value {
		return x.C.BVC(64, 0)
	})
}
