package ssaexec

import (
	"fmt"
	"os"
	"path/filepath"
	"strconv"
	"strings"

	"golang.org/x/tools/go/ssa"

	"gosmt/smt"
)

// RTFile is the name of the harness runtime file injected into every package
// under test. Natively its functions read a replay tape; here they are
// intercepted by name.
const RTFile = "zz_verif_rt.go"

func (x *Exec) isRT(fn *ssa.Function) bool {
	if fn.Pkg == nil || !fn.Pos().IsValid() {
		return false
	}
	return filepath.Base(x.Prog.Fset.Position(fn.Pos()).Filename) == RTFile
}

func (x *Exec) newInput(kind string, s smt.Sort) *smt.Term {
	if x.TapeIn != nil {
		// concrete re-execution of a tape inside the engine (debugging aid)
		e := x.TapeIn[x.tapePos]
		x.tapePos++
		switch s.K {
		case smt.KBool:
			return x.C.BoolC(e.V != 0)
		default:
			return x.C.BVC(s.W, e.V)
		}
	}
	name := fmt.Sprintf("in%d_%s", len(x.inputs), kind)
	if s.K == smt.KBV {
		name = fmt.Sprintf("%s%d", name, s.W)
	}
	v := x.C.Var(name, s)
	return v
}

var harnessIntrinsics map[string]intrinsic

func init() {
	harnessIntrinsics = map[string]intrinsic{
		"vBool": func(x *Exec, _ *ssa.Function, a []Value) Value {
			v := x.newInput("bool", smt.Bool)
			x.inputs = append(x.inputs, Input{Kind: "bool", Term: v})
			return v
		},
		"vByte": func(x *Exec, _ *ssa.Function, a []Value) Value {
			v := x.newInput("byte", smt.BV(8))
			x.inputs = append(x.inputs, Input{Kind: "byte", Term: v})
			return v
		},
		"vU32": func(x *Exec, _ *ssa.Function, a []Value) Value {
			v := x.newInput("u32", smt.BV(32))
			x.inputs = append(x.inputs, Input{Kind: "u32", Term: v})
			return v
		},
		"vU64": func(x *Exec, _ *ssa.Function, a []Value) Value {
			v := x.newInput("u64", smt.BV(64))
			x.inputs = append(x.inputs, Input{Kind: "u64", Term: v})
			return v
		},
		"vFloat64": func(x *Exec, _ *ssa.Function, a []Value) Value {
			v := x.newInput("f64", smt.BV(64))
			x.inputs = append(x.inputs, Input{Kind: "f64", Term: v})
			return x.C.FFromBits(v)
		},
		// vFloat64NN: any bit pattern that is not a NaN.
		"vFloat64NN": func(x *Exec, _ *ssa.Function, a []Value) Value {
			v := x.newInput("f64nn", smt.BV(64))
			x.inputs = append(x.inputs, Input{Kind: "f64", Term: v})
			delete(x.C.NonNaN, v.ID)
			x.assume(x.C.Not(x.C.FIsNaN(x.C.FFromBits(v))))
			x.C.NonNaN[v.ID] = true
			return x.C.FFromBits(v)
		},
		// vFloatOrd: any non-NaN double, carried by its integer order key so
		// that comparison-only code is decided in integer arithmetic.
		"vFloatOrd": func(x *Exec, _ *ssa.Function, a []Value) Value {
			k := x.C.Var(fmt.Sprintf("in%d_key", len(x.inputs)), smt.Int)
			f := x.C.FFromKey(k)
			x.inputs = append(x.inputs, Input{Kind: "f64", Term: f})
			x.assume(x.C.And(x.C.ILe(x.C.IntConst(smt.KeyNInf), k), x.C.ILe(k, x.C.IntConst(smt.KeyPInf))))
			return f
		},
		// vGrid(w, s): k * 2^-s for a signed w-bit k. The tape carries the float bits.
		"vGrid": func(x *Exec, _ *ssa.Function, a []Value) Value {
			w := int(a[0].(*smt.Term).Int())
			s := int(a[1].(*smt.Term).Int())
			v := x.newInput(fmt.Sprintf("grid%d_", s), smt.BV(w))
			f := x.C.FGrid(v, s)
			x.inputs = append(x.inputs, Input{Kind: "f64", Term: f, W: w, S: s})
			return f
		},
		// vInt(lo, hi): symbolic int constrained to lo <= v <= hi.
		"vInt": func(x *Exec, _ *ssa.Function, a []Value) Value {
			lo, hi := a[0].(*smt.Term), a[1].(*smt.Term)
			v := x.newInput("int", smt.BV(64))
			x.inputs = append(x.inputs, Input{Kind: "int", Term: v})
			x.assume(x.C.And(x.C.SLe(lo, v), x.C.SLe(v, hi)))
			return v
		},
		// vChoose(n): concrete case split over [0, n).
		"vChoose": func(x *Exec, _ *ssa.Function, a []Value) Value {
			n := a[0].(*smt.Term)
			if !n.IsConst() {
				panic(x.unsupported("vChoose with symbolic bound"))
			}
			var d int
			if x.TapeIn != nil {
				d = int(x.TapeIn[x.tapePos].V)
				x.tapePos++
			} else {
				d = x.Choose(int(n.Int()))
			}
			x.inputs = append(x.inputs, Input{Kind: "choose", Val: uint64(d)})
			return x.C.IntC(64, int64(d))
		},
		"vAssume": func(x *Exec, _ *ssa.Function, a []Value) Value {
			c := a[0].(*smt.Term)
			if c.IsFalse() {
				panic(pathEnd{"assume-false"})
			}
			if c.IsTrue() {
				return nil
			}
			x.assume(c)
			if x.query() == smt.Unsat {
				panic(pathEnd{"assume-false"})
			}
			return nil
		},
		// vLemma(cond, name): a fact proved universally by the harness called
		// name (checked by the driver to exist and pass in the same run), added
		// to the path condition to bridge real-code terms and oracle terms.
		"vLemma": func(x *Exec, _ *ssa.Function, a []Value) Value {
			name, _ := x.concreteStr(a[1].(Str))
			if x.Lemmas == nil {
				x.Lemmas = map[string]bool{}
			}
			x.Lemmas[name] = true
			x.assume(a[0].(*smt.Term))
			return nil
		},
		"vAssert": func(x *Exec, _ *ssa.Function, a []Value) Value {
			lbl, _ := x.concreteStr(a[1].(Str))
			x.Assert(a[0].(*smt.Term), lbl)
			return nil
		},
		"vReach": func(x *Exec, _ *ssa.Function, a []Value) Value {
			lbl, _ := x.concreteStr(a[0].(Str))
			x.reached = append(x.reached, lbl)
			return nil
		},
		"vSameBits": func(x *Exec, _ *ssa.Function, a []Value) Value {
			p, q := a[0].(*smt.Term), a[1].(*smt.Term)
			if smt.KeyBacked(p) && smt.KeyBacked(q) {
				return x.C.Eq(x.C.FKey(p), x.C.FKey(q))
			}
			return x.C.Eq(x.C.FBits(p), x.C.FBits(q))
		},
		"vAnd": func(x *Exec, _ *ssa.Function, a []Value) Value {
			var ts []*smt.Term
			for _, v := range sliceValues(x, a[0]) {
				ts = append(ts, v.(*smt.Term))
			}
			return x.C.And(ts...)
		},
		"vOr": func(x *Exec, _ *ssa.Function, a []Value) Value {
			var ts []*smt.Term
			for _, v := range sliceValues(x, a[0]) {
				ts = append(ts, v.(*smt.Term))
			}
			return x.C.Or(ts...)
		},
		"vImplies": func(x *Exec, _ *ssa.Function, a []Value) Value {
			return x.C.Implies(a[0].(*smt.Term), a[1].(*smt.Term))
		},
		"vIteF": func(x *Exec, _ *ssa.Function, a []Value) Value {
			return x.C.Ite(a[0].(*smt.Term), a[1].(*smt.Term), a[2].(*smt.Term))
		},
		"vIteI": func(x *Exec, _ *ssa.Function, a []Value) Value {
			return x.C.Ite(a[0].(*smt.Term), a[1].(*smt.Term), a[2].(*smt.Term))
		},
		"vIteB": func(x *Exec, _ *ssa.Function, a []Value) Value {
			return x.C.Ite(a[0].(*smt.Term), a[1].(*smt.Term), a[2].(*smt.Term))
		},
		"vInputLen": func(x *Exec, _ *ssa.Function, a []Value) Value {
			x.inputLen = int(a[0].(*smt.Term).Int())
			return nil
		},
		// vConcrete(i, max): case split a symbolic int into its feasible values.
		"vConcrete": func(x *Exec, _ *ssa.Function, a []Value) Value {
			t := a[0].(*smt.Term)
			mx := int(a[1].(*smt.Term).Int())
			return x.C.BVC(t.Sort.W, x.Concretize(t, mx, "vConcrete"))
		},
		"vObserveF": func(x *Exec, _ *ssa.Function, a []Value) Value {
			lbl, _ := x.concreteStr(a[0].(Str))
			x.observes = append(x.observes, Observation{Label: lbl, Terms: []*smt.Term{x.C.FBits(a[1].(*smt.Term))}})
			return nil
		},
		"vObserveI": func(x *Exec, _ *ssa.Function, a []Value) Value {
			lbl, _ := x.concreteStr(a[0].(Str))
			x.observes = append(x.observes, Observation{Label: lbl, Terms: []*smt.Term{a[1].(*smt.Term)}})
			return nil
		},
		"vObserveB": func(x *Exec, _ *ssa.Function, a []Value) Value {
			lbl, _ := x.concreteStr(a[0].(Str))
			x.observes = append(x.observes, Observation{Label: lbl, Terms: []*smt.Term{a[1].(*smt.Term)}})
			return nil
		},
		// vBound(quick, thorough): a bound that depends on the tier.
		"vBound": func(x *Exec, _ *ssa.Function, a []Value) Value {
			v := a[x.Opt.Tier].(*smt.Term)
			if x.TapeIn != nil {
				v = x.C.IntC(64, int64(x.TapeIn[x.tapePos].V))
				x.tapePos++
			}
			x.inputs = append(x.inputs, Input{Kind: "choose", Val: v.U})
			return v
		},
		// vNumAt(buf, pos): the float whose strconv text starts at buf[pos], and
		// the position after it.
		"vNumAt": func(x *Exec, _ *ssa.Function, a []Value) Value {
			buf := a[0].(SliceV)
			pos := int(a[1].(*smt.Term).Int())
			if pos < 0 || pos >= buf.Len {
				return Tuple{x.C.FC(0), x.C.IntC(64, int64(pos)), x.C.False()}
			}
			if tok, ok := buf.Arr.Sub[buf.Off+pos].V.(NumTok); ok {
				if tok.Lossy != "" {
					// not the shortest round-trip form: the parsed value is some
					// function of f that need not be f
					return Tuple{x.C.UF("reparse_"+tok.Lossy, smt.F64, tok.F), x.C.IntC(64, int64(pos+1)), x.C.True()}
				}
				return Tuple{tok.F, x.C.IntC(64, int64(pos+1)), x.C.True()}
			}
			return Tuple{x.C.FC(0), x.C.IntC(64, int64(pos)), x.C.False()}
		},
		// vClose(a, b): equality of quantities that are exact only in real
		// arithmetic (natively: agreement to a relative tolerance)
		"vClose": func(x *Exec, _ *ssa.Function, a []Value) Value {
			return x.C.FEq(a[0].(*smt.Term), a[1].(*smt.Term))
		},
		// vNumStr(): the decimal text of a fresh finite float, as a placeholder
		// token "@k@" that strconv.ParseFloat maps back to the float (C20).
		"vNumStr": func(x *Exec, _ *ssa.Function, a []Value) Value {
			v := x.newInput("f64", smt.BV(64))
			x.inputs = append(x.inputs, Input{Kind: "f64", Term: v})
			f := x.C.FFromBits(v)
			x.assume(x.C.And(x.C.Not(x.C.FIsNaN(f)), x.C.Not(x.C.FIsInf(f))))
			return x.holeFor(f)
		},
		// vNumStrOf(f): the decimal text of a computed float
		"vNumStrOf": func(x *Exec, _ *ssa.Function, a []Value) Value {
			return x.holeFor(a[0].(*smt.Term))
		},
		// vNumOf(s): the float a placeholder stands for (to write oracles)
		"vNumOf": func(x *Exec, _ *ssa.Function, a []Value) Value {
			if f, ok := x.holeValue(x.mustStr(a[0])); ok {
				return f
			}
			if f, err := strconv.ParseFloat(strings.TrimSpace(x.mustStr(a[0])), 64); err == nil {
				return x.C.FC(f)
			}
			panic(x.unsupported("vNumOf of a string that is neither a placeholder nor a numeral"))
		},
		"vReadFile": func(x *Exec, _ *ssa.Function, a []Value) Value {
			b, err := os.ReadFile(x.mustStr(a[0]))
			if err != nil {
				panic(&engineError{msg: "vReadFile: " + err.Error()})
			}
			return Str{S: string(b)}
		},
		// vSnapshot(roots...): record the state reachable from the roots and from
		// the module's package-level variables; vSnapshotSame(id, roots...): that
		// state is (bit for bit, pointer for pointer) what it was then.
		"vSnapshot": func(x *Exec, _ *ssa.Function, a []Value) Value {
			x.snaps = append(x.snaps, x.takeSnapshot(sliceValues(x, a[0]), x.ModPath))
			return x.C.IntC(64, int64(len(x.snaps)-1))
		},
		"vSnapshotSame": func(x *Exec, _ *ssa.Function, a []Value) Value {
			id := int(a[0].(*smt.Term).Int())
			now := x.takeSnapshot(sliceValues(x, a[1]), x.ModPath)
			t, diff := x.sameSnapshot(x.snaps[id], now)
			if len(diff) > 0 {
				x.note("state shape changed: " + strings.Join(diff, ", "))
			}
			return t
		},
		"vNative": func(x *Exec, _ *ssa.Function, a []Value) Value { return x.C.False() },
		// vAssertCandidate: an assertion whose failure is only a candidate: it
		// counts as a violation when the native run of the same input fails an
		// assertion with the same label (the harness demonstrates it there).
		"vAssertCandidate": func(x *Exec, _ *ssa.Function, a []Value) Value {
			lbl, _ := x.concreteStr(a[1].(Str))
			saved := x.overApprox
			x.overApprox = true
			defer func() { x.overApprox = saved }()
			x.Assert(a[0].(*smt.Term), lbl)
			return nil
		},
		"vLoadTape": func(x *Exec, _ *ssa.Function, a []Value) Value { return nil },
	}
}


func (x *Exec) holeFor(f *smt.Term) Str {
	if f.IsConst() {
		return Str{S: strconv.FormatFloat(f.Float(), 'f', -1, 64)}
	}
	x.holes = append(x.holes, f)
	return Str{S: fmt.Sprintf("@%d@", len(x.holes)-1)}
}

// holeValue resolves a placeholder token produced by holeFor.
func (x *Exec) holeValue(s string) (*smt.Term, bool) {
	if len(s) < 3 || s[0] != '@' || s[len(s)-1] != '@' {
		return nil, false
	}
	k, err := strconv.Atoi(s[1 : len(s)-1])
	if err != nil || k < 0 || k >= len(x.holes) {
		return nil, false
	}
	return x.holes[k], true
}
