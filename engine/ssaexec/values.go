// Package ssaexec symbolically executes go/ssa functions. Scalars are smt
// terms (constants fold, so concrete execution is the special case), the heap
// is concrete (pointers, slice lengths, dynamic types are concrete on every
// path), and path forks are explored by re-execution over decision vectors.
package ssaexec

import (
	"fmt"
	"go/types"
	"strings"

	"golang.org/x/tools/go/ssa"

	"gosmt/smt"
)

type Value interface{}

// Cell is one addressable memory location. Struct and array cells hold their
// components in Sub; everything else is held in V.
type Cell struct {
	V   Value
	Sub []*Cell
	T   types.Type
	ID  int
	// Shared marks cells reachable by several goroutines (C18 model).
	Parent *Cell
	Meta   interface{} // engine-side annotation (e.g. the value a JSON document was marshalled from)
}

type StructV struct{ F []Value }
type ArrayV struct{ E []Value }

// SliceV is a slice header; Arr == nil is the nil slice.
type SliceV struct {
	Arr           *Cell
	Off, Len, Cap int
}

// IfaceV is an interface value; T == nil is the nil interface.
type IfaceV struct {
	T types.Type
	V Value
}

type MapV struct {
	KT, VT types.Type
	Keys   []Value
	Vals   []Value
	idx    map[string]int
	dead   []bool
	n      int
}

type Closure struct {
	Fn  *ssa.Function
	Env []Value
}

type Tuple []Value

// Str is a string whose bytes may be symbolic; the length is concrete.
// Fully concrete strings keep B == nil.
type Str struct {
	S string
	B []*smt.Term // if non-nil, len(B) == length and S is unused
}

func (s Str) Len() int {
	if s.B != nil {
		return len(s.B)
	}
	return len(s.S)
}
func (s Str) Concrete() bool { return s.B == nil }

// NumTok is the text of one float as produced by strconv.AppendFloat(_, f,
// 'g', -1, 64): an opaque token occupying one byte cell. By strconv's
// contract it consists of characters from [0-9+-.eE] (for finite f) and
// ParseFloat maps it back to exactly f.
type NumTok struct {
	F *smt.Term
	// Lossy marks a token produced with a format other than ('g', -1, 64): its
	// text need not parse back to F.
	Lossy string
}

// rangeIter is the state of a Range instruction.
type rangeIter struct {
	m    *MapV
	order []int
	s    Str
	pos  int
}

func isNilValue(v Value) bool {
	switch v := v.(type) {
	case nil:
		return true
	case *Cell:
		return v == nil
	case SliceV:
		return v.Arr == nil
	case IfaceV:
		return v.T == nil
	case *MapV:
		return v == nil
	case *Closure:
		return v == nil
	case *ssa.Function:
		return v == nil
	case *ChanV:
		return v == nil
	}
	return false
}

func (x *Exec) intWidth(t types.Type) (w int, signed bool) {
	b, ok := t.Underlying().(*types.Basic)
	if !ok {
		panic(x.unsupported("intWidth of %v", t))
	}
	switch b.Kind() {
	case types.Int8:
		return 8, true
	case types.Int16:
		return 16, true
	case types.Int32:
		return 32, true
	case types.Int, types.Int64, types.UntypedInt, types.UntypedRune:
		return 64, true
	case types.Uint8:
		return 8, false
	case types.Uint16:
		return 16, false
	case types.Uint32:
		return 32, false
	case types.Uint, types.Uint64, types.Uintptr:
		return 64, false
	}
	panic(x.unsupported("intWidth of %v", t))
}

func isInteger(t types.Type) bool {
	b, ok := t.Underlying().(*types.Basic)
	return ok && b.Info()&types.IsInteger != 0
}
func isFloat(t types.Type) bool {
	b, ok := t.Underlying().(*types.Basic)
	return ok && b.Info()&types.IsFloat != 0
}
func isString(t types.Type) bool {
	b, ok := t.Underlying().(*types.Basic)
	return ok && b.Info()&types.IsString != 0
}
func isBool(t types.Type) bool {
	b, ok := t.Underlying().(*types.Basic)
	return ok && b.Info()&types.IsBoolean != 0
}

// zero returns the zero value of type t.
func (x *Exec) zero(t types.Type) Value {
	switch u := t.Underlying().(type) {
	case *types.Basic:
		switch {
		case u.Info()&types.IsBoolean != 0:
			return x.C.False()
		case u.Info()&types.IsInteger != 0:
			w, _ := x.intWidth(t)
			return x.C.BVC(w, 0)
		case u.Info()&types.IsFloat != 0:
			return x.C.FC(0)
		case u.Info()&types.IsString != 0:
			return Str{}
		case u.Kind() == types.UnsafePointer:
			return (*Cell)(nil)
		case u.Kind() == types.UntypedNil:
			return nil
		}
	case *types.Pointer:
		return (*Cell)(nil)
	case *types.Slice:
		return SliceV{}
	case *types.Map:
		return (*MapV)(nil)
	case *types.Interface:
		return IfaceV{}
	case *types.Signature:
		return (*Closure)(nil)
	case *types.Chan:
		return (*ChanV)(nil)
	case *types.Struct:
		s := &StructV{F: make([]Value, u.NumFields())}
		for i := range s.F {
			s.F[i] = x.zero(u.Field(i).Type())
		}
		return s
	case *types.Array:
		a := &ArrayV{E: make([]Value, int(u.Len()))}
		for i := range a.E {
			a.E[i] = x.zero(u.Elem())
		}
		return a
	case *types.Tuple:
		tu := make(Tuple, u.Len())
		for i := range tu {
			tu[i] = x.zero(u.At(i).Type())
		}
		return tu
	}
	panic(x.unsupported("zero of %v", t))
}

// newCell allocates a zeroed cell tree for type t.
func (x *Exec) newCell(t types.Type) *Cell {
	x.ncell++
	c := &Cell{T: t, ID: x.ncell}
	switch u := t.Underlying().(type) {
	case *types.Struct:
		c.Sub = make([]*Cell, u.NumFields())
		for i := range c.Sub {
			c.Sub[i] = x.newCell(u.Field(i).Type())
			c.Sub[i].Parent = c
		}
	case *types.Array:
		c.Sub = make([]*Cell, int(u.Len()))
		for i := range c.Sub {
			c.Sub[i] = x.newCell(u.Elem())
			c.Sub[i].Parent = c
		}
	default:
		c.V = x.zero(t)
	}
	return c
}

// newArray allocates an array cell of n elements of type elem (backing store
// for slices).
func (x *Exec) newArray(elem types.Type, n int) *Cell {
	x.ncell++
	c := &Cell{T: types.NewArray(elem, int64(n)), ID: x.ncell}
	c.Sub = make([]*Cell, n)
	for i := range c.Sub {
		c.Sub[i] = x.newCell(elem)
		c.Sub[i].Parent = c
	}
	x.meterAlloc(elem, n)
	return c
}

func (x *Exec) load(c *Cell) Value {
	if c.Sub != nil || isAggregate(c.T) {
		switch c.T.Underlying().(type) {
		case *types.Struct:
			s := &StructV{F: make([]Value, len(c.Sub))}
			for i, sc := range c.Sub {
				s.F[i] = x.load(sc)
			}
			return s
		case *types.Array:
			a := &ArrayV{E: make([]Value, len(c.Sub))}
			for i, sc := range c.Sub {
				a.E[i] = x.load(sc)
			}
			return a
		}
	}
	return c.V
}

func isAggregate(t types.Type) bool {
	switch t.Underlying().(type) {
	case *types.Struct, *types.Array:
		return true
	}
	return false
}

func (x *Exec) store(c *Cell, v Value) {
	if x.spec > 0 && c.ID <= x.specMark[len(x.specMark)-1] {
		// guarded store: remember the old value; the if-converter merges or
		// restores it
		if _, scalar := v.(*smt.Term); !scalar || c.Sub != nil {
			if sv, isStruct := v.(*StructV); isStruct && c.Sub != nil && len(c.Sub) == len(sv.F) {
				for i, sc := range c.Sub {
					x.store(sc, sv.F[i])
				}
				return
			}
			panic(specAbort{"non-scalar store to older memory inside a speculated block"})
		}
		x.specLog = append(x.specLog, specWrite{c, c.V})
		c.V = v
		return
	}
	if n := len(x.mergeMark); n > 0 && c.ID <= x.mergeMark[n-1] {
		panic(mergeAbort{"write to memory older than the merged call"})
	}
	switch vv := v.(type) {
	case *StructV:
		if len(c.Sub) != len(vv.F) {
			panic(x.unsupported("store struct arity %d into %v", len(vv.F), c.T))
		}
		for i, sc := range c.Sub {
			x.store(sc, vv.F[i])
		}
		return
	case *ArrayV:
		if len(c.Sub) != len(vv.E) {
			panic(x.unsupported("store array arity"))
		}
		for i, sc := range c.Sub {
			x.store(sc, vv.E[i])
		}
		return
	}
	if c.Sub != nil {
		panic(x.unsupported("store scalar %T into aggregate %v", v, c.T))
	}
	c.V = v
}

// ---- maps ----

func (x *Exec) newMap(kt, vt types.Type) *MapV {
	return &MapV{KT: kt, VT: vt, idx: map[string]int{}}
}

// keyOf renders a concrete value as a comparable string.
func (x *Exec) keyOf(v Value) string {
	switch v := v.(type) {
	case *smt.Term:
		if !v.IsConst() {
			panic(x.unsupported("symbolic map key %v", v))
		}
		if v.Sort.K == smt.KF64 {
			// float keys compare by ==: +0 and -0 coincide
			if v.Float() == 0 {
				return "f0"
			}
			return fmt.Sprintf("f%x", v.U)
		}
		return fmt.Sprintf("%d.%d:%x", v.Sort.K, v.Sort.W, v.U)
	case Str:
		if !v.Concrete() {
			s, ok := x.concreteStr(v)
			if !ok {
				panic(x.unsupported("symbolic string map key"))
			}
			return "s" + s
		}
		return "s" + v.S
	case *Cell:
		if v == nil {
			return "p0"
		}
		return fmt.Sprintf("p%d", v.ID)
	case IfaceV:
		if v.T == nil {
			return "inil"
		}
		return "i" + v.T.String() + "/" + x.keyOf(v.V)
	case *StructV:
		var sb strings.Builder
		sb.WriteString("{")
		for _, f := range v.F {
			sb.WriteString(x.keyOf(f))
			sb.WriteString(",")
		}
		sb.WriteString("}")
		return sb.String()
	case *ArrayV:
		var sb strings.Builder
		sb.WriteString("[")
		for _, f := range v.E {
			sb.WriteString(x.keyOf(f))
			sb.WriteString(",")
		}
		sb.WriteString("]")
		return sb.String()
	case *ChanV:
		return fmt.Sprintf("c%p", v)
	}
	panic(x.unsupported("map key of %T", v))
}

func (m *MapV) lookup(k string) (Value, bool) {
	if m == nil {
		return nil, false
	}
	i, ok := m.idx[k]
	if !ok {
		return nil, false
	}
	return m.Vals[i], true
}

func (m *MapV) set(k string, key, val Value) {
	if i, ok := m.idx[k]; ok {
		m.Vals[i] = val
		return
	}
	m.idx[k] = len(m.Keys)
	m.Keys = append(m.Keys, key)
	m.Vals = append(m.Vals, val)
	m.dead = append(m.dead, false)
	m.n++
}

func (m *MapV) del(k string) {
	if m == nil {
		return
	}
	if i, ok := m.idx[k]; ok {
		delete(m.idx, k)
		m.dead[i] = true
		m.n--
	}
}

func (m *MapV) Len() int {
	if m == nil {
		return 0
	}
	return m.n
}

// live returns indices of live entries in insertion order.
func (m *MapV) live() []int {
	if m == nil {
		return nil
	}
	var out []int
	for i := range m.Keys {
		if !m.dead[i] {
			out = append(out, i)
		}
	}
	return out
}

// ---- strings ----

func (x *Exec) concreteStr(s Str) (string, bool) {
	if s.B == nil {
		return s.S, true
	}
	b := make([]byte, len(s.B))
	for i, t := range s.B {
		if !t.IsConst() {
			return "", false
		}
		b[i] = byte(t.U)
	}
	return string(b), true
}

func (x *Exec) strBytes(s Str) []*smt.Term {
	if s.B != nil {
		return s.B
	}
	out := make([]*smt.Term, len(s.S))
	for i := 0; i < len(s.S); i++ {
		out[i] = x.C.BVC(8, uint64(s.S[i]))
	}
	return out
}

func (x *Exec) mkStr(b []*smt.Term) Str {
	conc := make([]byte, len(b))
	for i, t := range b {
		if !t.IsConst() {
			return Str{B: b}
		}
		conc[i] = byte(t.U)
	}
	return Str{S: string(conc)}
}

// ---- equality ----

// equal builds the Go == relation between two values of static type t.
func (x *Exec) equal(t types.Type, a, b Value) *smt.Term {
	c := x.C
	switch av := a.(type) {
	case *smt.Term:
		if _, isTok := b.(NumTok); isTok {
			return c.False()
		}
		bv := b.(*smt.Term)
		if av.Sort.K == smt.KF64 {
			return c.FEq(av, bv)
		}
		return c.Eq(av, bv)
	case rtypeV:
		bv, ok := b.(rtypeV)
		return c.BoolC(ok && types.Identical(av.T, bv.T))
	case NumTok:
		bv, ok := b.(NumTok)
		if !ok {
			return c.False() // a number token is no punctuation or letter
		}
		return c.Eq(c.FBits(av.F), c.FBits(bv.F))
	case Str:
		bv := b.(Str)
		if av.Len() != bv.Len() {
			return c.False()
		}
		if av.Concrete() && bv.Concrete() {
			return c.BoolC(av.S == bv.S)
		}
		ab, bb := x.strBytes(av), x.strBytes(bv)
		var cs []*smt.Term
		for i := range ab {
			cs = append(cs, c.Eq(ab[i], bb[i]))
		}
		return c.And(cs...)
	case *Cell:
		bv, _ := b.(*Cell)
		return c.BoolC(av == bv)
	case IfaceV:
		bv, ok := b.(IfaceV)
		if !ok {
			// comparing interface with nil literal
			return c.BoolC(av.T == nil && isNilValue(b))
		}
		if av.T == nil || bv.T == nil {
			return c.BoolC(av.T == nil && bv.T == nil)
		}
		if !types.Identical(av.T, bv.T) {
			return c.False()
		}
		if !types.Comparable(av.T) {
			panic(&targetPanic{v: x.runtimeError("comparing uncomparable type " + av.T.String())})
		}
		return x.equal(av.T, av.V, bv.V)
	case *StructV:
		bv := b.(*StructV)
		var cs []*smt.Term
		st := t.Underlying().(*types.Struct)
		for i := range av.F {
			if st.Field(i).Name() == "_" {
				continue
			}
			cs = append(cs, x.equal(st.Field(i).Type(), av.F[i], bv.F[i]))
		}
		return c.And(cs...)
	case *ArrayV:
		bv := b.(*ArrayV)
		var cs []*smt.Term
		et := t.Underlying().(*types.Array).Elem()
		for i := range av.E {
			cs = append(cs, x.equal(et, av.E[i], bv.E[i]))
		}
		return c.And(cs...)
	case SliceV:
		// only comparison with nil is legal
		bv, _ := b.(SliceV)
		return c.BoolC(av.Arr == nil && bv.Arr == nil)
	case *MapV:
		bv, _ := b.(*MapV)
		return c.BoolC(av == bv)
	case *Closure:
		bv, _ := b.(*Closure)
		if av == nil || bv == nil {
			return c.BoolC(av == nil && isNilValue(b))
		}
		return c.BoolC(av == bv)
	case *ssa.Function:
		return c.BoolC(isNilValue(a) && isNilValue(b))
	case *ChanV:
		bv, _ := b.(*ChanV)
		return c.BoolC(av == bv)
	case nil:
		return c.BoolC(isNilValue(b))
	}
	panic(x.unsupported("equal on %T", a))
}

func fnName(fn *ssa.Function) string { return fn.String() }
