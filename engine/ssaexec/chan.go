package ssaexec

import (
	"fmt"
	"go/types"

	"golang.org/x/tools/go/ssa"

	"gosmt/smt"
)

// Thread model (C18): interpreted goroutines run one at a time; the running
// one yields only at synchronisation operations (mutex acquire, channel
// send/receive, errgroup.Wait, goroutine start and exit), where the next
// thread to run is a decision over the enabled threads. Critical sections
// are therefore atomic steps.

// ChanV is a buffered channel.
type ChanV struct {
	buf    []Value
	cap    int
	closed bool
}

type thread struct {
	id      int
	resume  chan bool // true = run, false = exit
	done    bool
	started bool
	stack   []*frame
	waiting func() bool // nil or "may proceed"
	group   *groupState
}

type threadKill struct{}

type lockState struct {
	writer  bool
	readers int
}

type groupState struct {
	live     int
	firstErr IfaceV
}

func (x *Exec) makeChan(t types.Type, size Value) Value {
	n := int(size.(*smt.Term).Int())
	if n < 1 {
		panic(x.unsupported("unbuffered channel"))
	}
	return &ChanV{cap: n}
}

func (x *Exec) mainThread() *thread {
	if len(x.threads) == 0 {
		x.threads = []*thread{{id: 0, resume: make(chan bool), started: true}}
		x.cur = x.threads[0]
	}
	return x.threads[0]
}

// yield is a scheduling point: the current thread may proceed once cond
// holds; any enabled thread may be chosen to run first.
func (x *Exec) yield(cond func() bool) {
	x.mainThread()
	me := x.cur
	me.waiting = cond
	for {
		var enabled []*thread
		for _, t := range x.threads {
			if t.done {
				continue
			}
			if t.waiting == nil || t.waiting() {
				enabled = append(enabled, t)
			}
		}
		if len(enabled) == 0 {
			x.findings = append(x.findings, &Finding{Kind: "deadlock", Label: "deadlock", Harness: x.harness, Path: append([]int{}, x.sc.trace...), Msg: "all goroutines blocked"})
			panic(pathEnd{"deadlock"})
		}
		meEnabled := me.waiting == nil || me.waiting()
		if meEnabled && x.Opt.Preempt >= 0 && x.preemptions >= x.Opt.Preempt {
			// preemption bound reached: the running thread keeps running while it can
			me.waiting = nil
			return
		}
		next := enabled[x.Choose(len(enabled))]
		if next == me {
			me.waiting = nil
			return
		}
		if meEnabled {
			x.preemptions++
		}
		x.switchTo(next)
		if me.waiting == nil || me.waiting() {
			// we were resumed because we are enabled; take the step
			me.waiting = nil
			return
		}
	}
}

// switchTo hands the baton to next and blocks the current thread until it is
// resumed.
func (x *Exec) switchTo(next *thread) {
	me := x.cur
	me.stack = x.stack
	x.cur = next
	x.stack = next.stack
	x.Switches++
	next.resume <- true
	x.park(me)
}

func (x *Exec) park(me *thread) {
	ok := <-me.resume
	if !ok {
		panic(threadKill{})
	}
	if me.id == 0 && x.pendingPanic != nil {
		p := x.pendingPanic
		x.pendingPanic = nil
		panic(p)
	}
}

func (x *Exec) spawn(fnv Value, args []Value) { x.spawnIn(fnv, args, nil) }

func (x *Exec) spawnIn(fnv Value, args []Value, g *groupState) {
	x.mainThread()
	t := &thread{id: len(x.threads), resume: make(chan bool), group: g}
	x.threads = append(x.threads, t)
	x.threadWG.Add(1)
	go func() {
		defer x.threadWG.Done()
		if ok := <-t.resume; !ok {
			return
		}
		t.started = true
		defer func() {
			r := recover()
			if _, killed := r.(threadKill); killed {
				return
			}
			t.done = true
			if r != nil {
				// hand the panic (path end, engine error, uncaught target panic) to the main thread
				x.pendingPanic = r
				main := x.threads[0]
				t.stack = x.stack
				x.cur = main
				x.stack = main.stack
				main.resume <- true
				return
			}
			// normal exit: pick who runs next
			x.exitThread(t)
		}()
		res := x.call(fnv, args, nil)
		if g != nil {
			g.live--
			if err, ok := res.(IfaceV); ok && err.T != nil && g.firstErr.T == nil {
				g.firstErr = err
			}
		}
	}()
	// the new thread is runnable; whether it runs now is a scheduling decision
	x.yield(nil)
}

func (x *Exec) exitThread(t *thread) {
	var enabled []*thread
	for _, o := range x.threads {
		if !o.done && (o.waiting == nil || o.waiting()) {
			enabled = append(enabled, o)
		}
	}
	if len(enabled) == 0 {
		x.pendingPanic = pathEnd{"deadlock"}
		x.findings = append(x.findings, &Finding{Kind: "deadlock", Label: "deadlock", Harness: x.harness, Msg: "all goroutines blocked"})
		enabled = []*thread{x.threads[0]}
	}
	var next *thread
	func() {
		defer func() {
			if r := recover(); r != nil {
				x.pendingPanic = r
				next = x.threads[0]
			}
		}()
		next = enabled[x.Choose(len(enabled))]
	}()
	x.cur = next
	x.stack = next.stack
	x.Switches++
	next.resume <- true
}

// killThreads releases every parked interpreted goroutine at the end of a path.
func (x *Exec) killThreads() {
	for _, t := range x.threads {
		if t.id != 0 && !t.done {
			select {
			case t.resume <- false:
			default:
				// not parked on resume (cannot happen: only one thread runs)
			}
		}
	}
	// wait until the released goroutines have unwound: they share this executor
	x.threadWG.Wait()
	x.threads = nil
	x.cur = nil
	x.locks = nil
	x.pendingPanic = nil
}

func (x *Exec) chanSend(c *ChanV, v Value) {
	if c == nil {
		panic(x.unsupported("send on nil channel"))
	}
	x.yield(func() bool { return c.closed || len(c.buf) < c.cap })
	if c.closed {
		x.rtPanic("send on closed channel")
	}
	c.buf = append(c.buf, v)
}

func (x *Exec) chanRecv(c *ChanV, t types.Type) (Value, bool) {
	if c == nil {
		panic(x.unsupported("receive from nil channel"))
	}
	x.yield(func() bool { return c.closed || len(c.buf) > 0 })
	if len(c.buf) > 0 {
		v := c.buf[0]
		c.buf = c.buf[1:]
		return v, true
	}
	return x.zero(t), false
}

func (x *Exec) chanClose(c *ChanV) {
	if c == nil || c.closed {
		x.rtPanic("close of nil or closed channel")
	}
	c.closed = true
}

func (x *Exec) selectStmt(fr *frame, in *ssa.Select) Value { panic(x.unsupported("select")) }

func (x *Exec) lockOf(c *Cell) *lockState {
	if x.locks == nil {
		x.locks = map[*Cell]*lockState{}
	}
	l := x.locks[c]
	if l == nil {
		l = &lockState{}
		x.locks[c] = l
	}
	return l
}

func init() {
	lock := func(write bool) intrinsic {
		return func(x *Exec, _ *ssa.Function, a []Value) Value {
			l := x.lockOf(a[0].(*Cell))
			if write {
				x.yield(func() bool { return !l.writer && l.readers == 0 })
				l.writer = true
			} else {
				x.yield(func() bool { return !l.writer })
				l.readers++
			}
			return nil
		}
	}
	unlock := func(write bool) intrinsic {
		return func(x *Exec, _ *ssa.Function, a []Value) Value {
			l := x.lockOf(a[0].(*Cell))
			if write {
				if !l.writer {
					x.rtPanic("sync: unlock of unlocked mutex")
				}
				l.writer = false
			} else {
				if l.readers == 0 {
					x.rtPanic("sync: RUnlock of unlocked RWMutex")
				}
				l.readers--
			}
			return nil
		}
	}
	intrinsics["(*sync.Mutex).Lock"] = lock(true)
	intrinsics["(*sync.Mutex).Unlock"] = unlock(true)
	intrinsics["(*sync.RWMutex).Lock"] = lock(true)
	intrinsics["(*sync.RWMutex).Unlock"] = unlock(true)
	intrinsics["(*sync.RWMutex).RLock"] = lock(false)
	intrinsics["(*sync.RWMutex).RUnlock"] = unlock(false)
	intrinsics["(*golang.org/x/sync/errgroup.Group).Go"] = func(x *Exec, _ *ssa.Function, a []Value) Value {
		gc := a[0].(*Cell)
		if x.groups == nil {
			x.groups = map[*Cell]*groupState{}
		}
		g := x.groups[gc]
		if g == nil {
			g = &groupState{}
			x.groups[gc] = g
		}
		g.live++
		x.spawnIn(a[1], nil, g)
		return nil
	}
	intrinsics["(*golang.org/x/sync/errgroup.Group).Wait"] = func(x *Exec, _ *ssa.Function, a []Value) Value {
		g := x.groups[a[0].(*Cell)]
		if g == nil {
			return IfaceV{}
		}
		x.yield(func() bool { return g.live == 0 })
		return g.firstErr
	}
}

var _ = fmt.Sprint
