package ssaexec

import (
	"go/types"

	"golang.org/x/tools/go/ssa"
)

// ChanV is a channel in the (sequentialised) thread model.
type ChanV struct {
	buf    []Value
	cap    int
	closed bool
}

func (x *Exec) makeChan(t types.Type, size Value) Value {
	panic(x.unsupported("channels"))
}
func (x *Exec) chanSend(c *ChanV, v Value)                     { panic(x.unsupported("chan send")) }
func (x *Exec) chanRecv(c *ChanV, t types.Type) (Value, bool)  { panic(x.unsupported("chan recv")) }
func (x *Exec) chanClose(c *ChanV)                             { panic(x.unsupported("chan close")) }
func (x *Exec) spawn(fn Value, args []Value)                   { panic(x.unsupported("go statement")) }
func (x *Exec) selectStmt(fr *frame, in *ssa.Select) Value     { panic(x.unsupported("select")) }
