package ssaexec

import (
	"golang.org/x/tools/go/ssa"

	"gosmt/smt"
)

type specAbort struct{ why string }

type specWrite struct {
	c   *Cell
	old Value
}

// tryIfConv merges a side-effect-free triangle or diamond below a symbolic
// branch into ite terms at the join block instead of forking the path.
func (x *Exec) tryIfConv(fr *frame, in *ssa.If, cond *smt.Term) bool {
	a := fr.block
	t, f := a.Succs[0], a.Succs[1]
	var join *ssa.BasicBlock
	var sideT, sideF *ssa.BasicBlock // nil = edge goes straight to join
	single := func(b *ssa.BasicBlock) bool { return len(b.Preds) == 1 && len(b.Succs) == 1 }
	switch {
	case single(t) && t.Succs[0] == f && len(f.Preds) == 2:
		join, sideT = f, t
	case single(f) && f.Succs[0] == t && len(t.Preds) == 2:
		join, sideF = t, f
	case single(t) && single(f) && t.Succs[0] == f.Succs[0] && len(t.Succs[0].Preds) == 2:
		join, sideT, sideF = t.Succs[0], t, f
	default:
		return false
	}
	for _, b := range []*ssa.BasicBlock{sideT, sideF} {
		if b == nil {
			continue
		}
		for _, ins := range b.Instrs {
			switch ins.(type) {
			case *ssa.BinOp, *ssa.UnOp, *ssa.Call, *ssa.Convert, *ssa.ChangeType, *ssa.ChangeInterface, *ssa.MakeInterface,
				*ssa.Extract, *ssa.Field, *ssa.FieldAddr, *ssa.Index, *ssa.IndexAddr, *ssa.Slice, *ssa.Jump, *ssa.DebugRef, *ssa.Alloc, *ssa.Store:
			default:
				return false
			}
		}
	}
	pcLen := len(x.pc)
	nin := len(x.inputs)
	nfind := len(x.findings)
	stackLen := len(x.stack)
	ok := true
	logBase := len(x.specLog)
	// final values written by each side (cells restored to their old value in between)
	type written struct {
		old Value
		t   Value
		f   Value
	}
	touched := map[*Cell]*written{}
	var order []*Cell
	collect := func(isT bool) {
		for i := len(x.specLog) - 1; i >= logBase; i-- {
			w := x.specLog[i]
			e := touched[w.c]
			if e == nil {
				e = &written{}
				touched[w.c] = e
				order = append(order, w.c)
			}
			if isT && e.t == nil {
				e.t = w.c.V
			}
			if !isT && e.f == nil {
				e.f = w.c.V
			}
		}
		// restore (oldest entry last so the original value wins)
		for i := len(x.specLog) - 1; i >= logBase; i-- {
			w := x.specLog[i]
			w.c.V = w.old
			touched[w.c].old = w.old
		}
		x.specLog = x.specLog[:logBase]
	}
	restore := func() {
		for i := len(x.specLog) - 1; i >= logBase; i-- {
			x.specLog[i].c.V = x.specLog[i].old
		}
		x.specLog = x.specLog[:logBase]
	}
	runSide := func(b *ssa.BasicBlock, c *smt.Term) {
		if b == nil || !ok {
			return
		}
		x.pc = append(x.pc[:pcLen], c)
		x.spec++
		x.specMark = append(x.specMark, x.ncell)
		defer func() {
			x.spec--
			x.specMark = x.specMark[:len(x.specMark)-1]
			x.pc = x.pc[:pcLen]
			x.stack = x.stack[:stackLen]
			if r := recover(); r != nil {
				switch r.(type) {
				case specAbort, *targetPanic, mergeAbort:
					ok = false
				default:
					panic(r)
				}
			}
		}()
		saved := fr.block
		fr.block = b
		for _, ins := range b.Instrs {
			if _, isJ := ins.(*ssa.Jump); isJ {
				break
			}
			x.steps++
			x.visit(fr, ins)
		}
		fr.block = saved
	}
	runSide(sideT, cond)
	if ok {
		collect(true)
	}
	runSide(sideF, x.C.Not(cond))
	if ok {
		collect(false)
	}
	fr.block = a
	if !ok || len(x.inputs) != nin || len(x.findings) != nfind {
		restore()
		x.inputs = x.inputs[:nin]
		return false
	}
	predT, predF := a, a
	if sideT != nil {
		predT = sideT
	}
	if sideF != nil {
		predF = sideF
	}
	// compute all phis first; commit only if every one merges
	type pv struct {
		phi *ssa.Phi
		v   Value
	}
	var vals []pv
	for _, ins := range join.Instrs {
		phi, isPhi := ins.(*ssa.Phi)
		if !isPhi {
			break
		}
		var vt, vf Value
		for i, p := range join.Preds {
			if p == predT {
				vt = x.get(fr, phi.Edges[i])
			}
			if p == predF {
				vf = x.get(fr, phi.Edges[i])
			}
		}
		m, good := x.mergeValues(cond, vt, vf)
		if !good {
			return false
		}
		vals = append(vals, pv{phi, m})
	}
	// merge guarded stores
	var commits []specWrite
	for _, cell := range order {
		e := touched[cell]
		vt, vf := e.t, e.f
		if vt == nil {
			vt = e.old
		}
		if vf == nil {
			vf = e.old
		}
		m, good := x.mergeValues(cond, vt, vf)
		if !good {
			return false
		}
		commits = append(commits, specWrite{cell, m})
	}
	for _, cm := range commits {
		if x.spec > 0 {
			// nested speculation: the merged store is itself a guarded store
			x.store(cm.c, cm.old)
		} else {
			cm.c.V = cm.old
		}
	}
	for _, p := range vals {
		fr.env[p.phi] = p.v
	}
	fr.prev = a
	fr.block = join
	fr.skipPhis = true
	x.IfConv++
	return true
}
