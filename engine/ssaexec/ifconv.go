package ssaexec

import (
	"os"
	"sort"

	"golang.org/x/tools/go/ssa"

	"gosmt/smt"
)

type specAbort struct{ why string }

type specWrite struct {
	c   *Cell
	old Value
}

// findJoin returns the block where the two successors of an If reconverge:
// the common reachable block from which every other common reachable block
// is reachable (within a small region), or nil.
func findJoin(a, t, f *ssa.BasicBlock) *ssa.BasicBlock {
	const limit = 24
	// blocks that dominate the branch (headers of enclosing loops, the branch
	// itself) end the region: they are reached but not expanded
	reach := func(b *ssa.BasicBlock) map[*ssa.BasicBlock]bool {
		seen := map[*ssa.BasicBlock]bool{}
		work := []*ssa.BasicBlock{b}
		for len(work) > 0 && len(seen) < limit {
			x := work[len(work)-1]
			work = work[:len(work)-1]
			if seen[x] {
				continue
			}
			seen[x] = true
			if x.Dominates(a) {
				continue
			}
			work = append(work, x.Succs...)
		}
		return seen
	}
	rt, rf := reach(t), reach(f)
	var common []*ssa.BasicBlock
	for b := range rt {
		if rf[b] {
			common = append(common, b)
		}
	}
	sort.Slice(common, func(i, j int) bool { return common[i].Index < common[j].Index })
	var found *ssa.BasicBlock
	for _, c := range common {
		rc := reach(c)
		ok := true
		for _, o := range common {
			if !rc[o] {
				ok = false
				break
			}
		}
		if ok {
			if found != nil {
				return nil // ambiguous
			}
			found = c
		}
	}
	return found
}

// tryIfConv merges the region between a symbolic branch and its join block
// into ite terms instead of forking the path. Each side may contain
// straight-line blocks, nested convertible branches, calls to merged pure
// callees, and guarded stores of scalars; a side that returns, panics,
// needs a real fork or creates harness inputs aborts the conversion (memory
// is restored and the caller forks as usual).
func (x *Exec) tryIfConv(fr *frame, in *ssa.If, cond *smt.Term) bool {
	a := fr.block
	t, f := a.Succs[0], a.Succs[1]
	join := findJoin(a, t, f)
	if join == nil || join == a {
		return false
	}
	if os.Getenv("GOSMT_NOLOOPJOIN") != "" && join.Index <= a.Index {
		return false
	}
	// loops: the join must not lead back to the branch before leaving the region
	pcLen := len(x.pc)
	nin := len(x.inputs)
	nfind := len(x.findings)
	stackLen := len(x.stack)
	logBase := len(x.specLog)
	savedPrev := fr.prev

	var phis []*ssa.Phi
	for _, ins := range join.Instrs {
		phi, isPhi := ins.(*ssa.Phi)
		if !isPhi {
			break
		}
		phis = append(phis, phi)
	}

	type written struct{ old, t, f Value }
	touched := map[*Cell]*written{}
	var order []*Cell
	collect := func(isT bool) {
		for i := len(x.specLog) - 1; i >= logBase; i-- {
			w := x.specLog[i]
			e := touched[w.c]
			if e == nil {
				e = &written{}
				touched[w.c] = e
				order = append(order, w.c)
			}
			if isT && e.t == nil {
				e.t = w.c.V
			}
			if !isT && e.f == nil {
				e.f = w.c.V
			}
		}
		for i := len(x.specLog) - 1; i >= logBase; i-- {
			w := x.specLog[i]
			w.c.V = w.old
			touched[w.c].old = w.old
		}
		x.specLog = x.specLog[:logBase]
	}
	restore := func() {
		for i := len(x.specLog) - 1; i >= logBase; i-- {
			x.specLog[i].c.V = x.specLog[i].old
		}
		x.specLog = x.specLog[:logBase]
		fr.block = a
		fr.prev = savedPrev
		fr.skipPhis = false
		x.pc = x.pc[:pcLen]
		x.stack = x.stack[:stackLen]
	}

	// runSide executes from start until the join is reached and returns the
	// values of the join's phis as seen from this side.
	runSide := func(start *ssa.BasicBlock, c *smt.Term) (vals []Value, ok bool) {
		x.pc = append(x.pc[:pcLen], c)
		x.spec++
		x.specMark = append(x.specMark, x.ncell)
		defer func() {
			x.spec--
			x.specMark = x.specMark[:len(x.specMark)-1]
			x.pc = x.pc[:pcLen]
			x.stack = x.stack[:stackLen]
			if r := recover(); r != nil {
				switch r.(type) {
				case specAbort, *targetPanic, mergeAbort:
					ok = false
				default:
					panic(r)
				}
			}
		}()
		prev, cur := a, start
		fr.skipPhis = false
		visited := map[*ssa.BasicBlock]bool{}
		for steps := 0; cur != join; steps++ {
			if steps > 16 || visited[cur] || cur == a || (os.Getenv("GOSMT_NONEST") != "" && steps > 0) {
				return nil, false
			}
			visited[cur] = true
			fr.prev, fr.block = prev, cur
			var term ssa.Instruction
			for _, ins := range cur.Instrs {
				if fr.skipPhis {
					if _, isPhi := ins.(*ssa.Phi); isPhi {
						continue
					}
					fr.skipPhis = false
				}
				switch ins.(type) {
				case *ssa.Jump, *ssa.If:
					term = ins
				case *ssa.Return, *ssa.Panic, *ssa.RunDefers, *ssa.Defer, *ssa.Go, *ssa.Send, *ssa.Select, *ssa.MapUpdate, *ssa.Next, *ssa.Range:
					return nil, false
				default:
					x.steps++
					x.visit(fr, ins)
				}
				if term != nil {
					break
				}
			}
			fr.skipPhis = false
			switch tm := term.(type) {
			case *ssa.Jump:
				prev, cur = cur, cur.Succs[0]
			case *ssa.If:
				cv := x.get(fr, tm.Cond).(*smt.Term)
				if cv.IsConst() {
					prev = cur
					if cv.U == 1 {
						cur = cur.Succs[0]
					} else {
						cur = cur.Succs[1]
					}
					continue
				}
				inner := cur
				fr.block = inner
				if !x.tryIfConv(fr, tm, cv) {
					return nil, false
				}
				// the nested conversion left fr.block at its join with the phis computed
				prev, cur = inner, fr.block
				if cur == join {
					vals = make([]Value, len(phis))
					for i, p := range phis {
						vals[i] = fr.env[p]
					}
					fr.skipPhis = false
					return vals, true
				}
			default:
				return nil, false
			}
		}
		vals = make([]Value, len(phis))
		for i, p := range phis {
			for k, pred := range join.Preds {
				if pred == prev {
					vals[i] = x.get(fr, p.Edges[k])
					break
				}
			}
		}
		return vals, true
	}

	direct := func() []Value {
		vals := make([]Value, len(phis))
		for i, p := range phis {
			for k, pred := range join.Preds {
				if pred == a {
					vals[i] = x.get(fr, p.Edges[k])
				}
			}
		}
		return vals
	}
	var vt, vf []Value
	ok := true
	if t == join {
		vt = direct()
	} else {
		vt, ok = runSide(t, cond)
		if ok {
			collect(true)
		}
	}
	if ok {
		if f == join {
			vf = direct()
		} else {
			vf, ok = runSide(f, x.C.Not(cond))
			if ok {
				collect(false)
			}
		}
	}
	if !ok || len(x.inputs) != nin || len(x.findings) != nfind {
		restore()
		x.inputs = x.inputs[:nin]
		return false
	}
	if os.Getenv("GOSMT_FORCEABORT") != "" {
		restore()
		return false
	}
	merged := make([]Value, len(phis))
	for i := range phis {
		m, good := x.mergeValues(cond, vt[i], vf[i])
		if !good {
			restore()
			return false
		}
		merged[i] = m
	}
	var commits []specWrite
	for _, cell := range order {
		e := touched[cell]
		a1, b1 := e.t, e.f
		if a1 == nil {
			a1 = e.old
		}
		if b1 == nil {
			b1 = e.old
		}
		m, good := x.mergeValues(cond, a1, b1)
		if !good {
			restore()
			return false
		}
		commits = append(commits, specWrite{cell, m})
	}
	for _, cm := range commits {
		if x.spec > 0 {
			x.store(cm.c, cm.old)
		} else {
			cm.c.V = cm.old
		}
	}
	for i, p := range phis {
		fr.env[p] = merged[i]
	}
	fr.prev = a
	fr.block = join
	fr.skipPhis = true
	x.pc = x.pc[:pcLen]
	x.stack = x.stack[:stackLen]
	x.IfConv++
	if os.Getenv("GOSMT_DEBUGIC") != "" && join.Index <= a.Index {
		println("ifconv loop-join", fr.fn.String(), a.Index, join.Index, len(phis), len(order))
	}
	return true
}
