package ssaexec

import (
	"golang.org/x/tools/go/ssa"

	"gosmt/smt"
)

// callMerged explores every path of a pure callee locally and returns the
// ite-merge of its results, so that the caller's path does not fork
// ("summarise pure callees"). It gives up (ok=false, nothing changed) when a
// path panics, writes to memory that existed before the call, creates
// harness inputs, or when results cannot be merged.
func (x *Exec) callMerged(fn *ssa.Function, args []Value, env []Value, site ssa.CallInstruction) (res Value, ok bool) {
	if res, ok = x.callMergedMode(fn, args, env, site, true); ok {
		return
	}
	return x.callMergedMode(fn, args, env, site, false)
}

func (x *Exec) callMergedMode(fn *ssa.Function, args []Value, env []Value, site ssa.CallInstruction, lazy bool) (res Value, ok bool) {
	savedSc := x.sc
	savedModelOK := x.modelOK
	pcLen := len(x.pc)
	stackLen := len(x.stack)
	nin := len(x.inputs)
	nfind := len(x.findings)
	x.mergeMark = append(x.mergeMark, x.ncell)
	savedSpec := x.spec
	x.spec = 0
	defer func() {
		x.spec = savedSpec
		x.mergeMark = x.mergeMark[:len(x.mergeMark)-1]
		x.sc = savedSc
		x.modelOK = savedModelOK
		x.pc = x.pc[:pcLen]
		x.stack = x.stack[:stackLen]
	}()
	type pathRes struct {
		cond *smt.Term
		val  Value
	}
	var results []pathRes
	work := [][]int{nil}
	for len(work) > 0 {
		p := work[len(work)-1]
		work = work[:len(work)-1]
		x.sc = &scope{prefix: p, lazy: lazy}
		x.modelOK = false
		x.pc = x.pc[:pcLen]
		x.stack = x.stack[:stackLen]
		var val Value
		aborted, dead := false, false
		func() {
			defer func() {
				if r := recover(); r != nil {
					switch rr := r.(type) {
					case *targetPanic, mergeAbort:
						aborted = true
					case pathEnd:
						// an unchecked (lazy) local path turned out to be infeasible
						if rr.reason == "infeasible" {
							dead = true
							return
						}
						panic(r)
					default:
						panic(r)
					}
				}
			}()
			val = x.callSSANoMerge(fn, args, env, site)
		}()
		if aborted || len(x.inputs) != nin || len(x.findings) != nfind {
			x.inputs = x.inputs[:nin]
			return nil, false
		}
		work = append(work, x.sc.forks...)
		if dead {
			continue
		}
		results = append(results, pathRes{cond: x.C.And(x.pc[pcLen:]...), val: val})
		if len(results) > 256 {
			return nil, false
		}
	}
	if len(results) == 0 {
		return nil, false
	}
	res = results[len(results)-1].val
	for i := len(results) - 2; i >= 0; i-- {
		var good bool
		res, good = x.mergeValues(results[i].cond, results[i].val, res)
		if !good {
			return nil, false
		}
	}
	if x.Merged == nil {
		x.Merged = map[string]int{}
	}
	x.Merged[fn.String()] += len(results)
	return res, true
}

func (x *Exec) mergeValues(cond *smt.Term, a, b Value) (Value, bool) {
	switch av := a.(type) {
	case *smt.Term:
		bv, ok := b.(*smt.Term)
		if !ok || av.Sort != bv.Sort {
			return nil, false
		}
		return x.C.Ite(cond, av, bv), true
	case *StructV:
		bv, ok := b.(*StructV)
		if !ok || len(av.F) != len(bv.F) {
			return nil, false
		}
		out := &StructV{F: make([]Value, len(av.F))}
		for i := range av.F {
			v, good := x.mergeValues(cond, av.F[i], bv.F[i])
			if !good {
				return nil, false
			}
			out.F[i] = v
		}
		return out, true
	case *ArrayV:
		bv, ok := b.(*ArrayV)
		if !ok || len(av.E) != len(bv.E) {
			return nil, false
		}
		out := &ArrayV{E: make([]Value, len(av.E))}
		for i := range av.E {
			v, good := x.mergeValues(cond, av.E[i], bv.E[i])
			if !good {
				return nil, false
			}
			out.E[i] = v
		}
		return out, true
	case Tuple:
		bv, ok := b.(Tuple)
		if !ok || len(av) != len(bv) {
			return nil, false
		}
		out := make(Tuple, len(av))
		for i := range av {
			v, good := x.mergeValues(cond, av[i], bv[i])
			if !good {
				return nil, false
			}
			out[i] = v
		}
		return out, true
	case nil:
		return nil, b == nil
	case *Cell:
		bv, ok := b.(*Cell)
		return a, ok && av == bv
	case Str:
		bv, ok := b.(Str)
		if !ok || av.Len() != bv.Len() {
			return nil, false
		}
		if av.Concrete() && bv.Concrete() {
			return a, av.S == bv.S
		}
		ab, bb := x.strBytes(av), x.strBytes(bv)
		out := make([]*smt.Term, len(ab))
		for i := range ab {
			out[i] = x.C.Ite(cond, ab[i], bb[i])
		}
		return x.mkStr(out), true
	case IfaceV:
		bv, ok := b.(IfaceV)
		if !ok {
			return nil, false
		}
		if av.T == nil || bv.T == nil {
			return a, av.T == nil && bv.T == nil
		}
		if av.T != bv.T {
			return nil, false
		}
		v, good := x.mergeValues(cond, av.V, bv.V)
		return IfaceV{T: av.T, V: v}, good
	case SliceV:
		bv, ok := b.(SliceV)
		return a, ok && av == bv
	}
	return nil, false
}
