package ssaexec

import (
	"go/types"
	"reflect"
	"strings"

	"golang.org/x/tools/go/ssa"

	"gosmt/smt"
)

// encoding/json by contract (DESIGN.md 3.6): Marshal(v) fails iff v contains
// a non-finite float; Unmarshal(Marshal(v)) yields the generic image of v
// ([]interface{} / float64 / string / nil), numbers round-tripping exactly.
// The marshalled text itself is not modelled: the byte slice returned by
// Marshal carries the value it was made from.

type jsonDoc struct{ img Value }

var emptyIface = types.NewInterfaceType(nil, nil).Complete()
var anySlice = types.NewSlice(emptyIface)

func init() {
	intrinsics["encoding/json.Marshal"] = inJSONMarshal
	intrinsics["encoding/json.Unmarshal"] = inJSONUnmarshal
}

// jsonImage builds the generic image of v; nonFinite collects the conditions
// under which some float is NaN or infinite.
func (x *Exec) jsonImage(t types.Type, v Value, nonFinite *[]*smt.Term) Value {
	c := x.C
	switch u := t.Underlying().(type) {
	case *types.Basic:
		switch {
		case u.Info()&types.IsFloat != 0:
			f := v.(*smt.Term)
			*nonFinite = append(*nonFinite, c.Or(c.FIsNaN(f), c.FIsInf(f)))
			return IfaceV{T: types.Typ[types.Float64], V: f}
		case u.Info()&types.IsString != 0:
			return IfaceV{T: types.Typ[types.String], V: v}
		case u.Info()&types.IsBoolean != 0:
			return IfaceV{T: types.Typ[types.Bool], V: v}
		case u.Info()&types.IsInteger != 0:
			tm := v.(*smt.Term)
			_, signed := x.intWidth(t)
			if signed {
				return IfaceV{T: types.Typ[types.Float64], V: c.FFromSInt(tm)}
			}
			return IfaceV{T: types.Typ[types.Float64], V: c.FFromUInt(tm)}
		}
	case *types.Slice:
		s := v.(SliceV)
		if s.Arr == nil {
			return IfaceV{}
		}
		arr := x.newArray(emptyIface, s.Len)
		for i := 0; i < s.Len; i++ {
			arr.Sub[i].V = x.jsonImage(u.Elem(), x.load(s.Arr.Sub[s.Off+i]), nonFinite)
		}
		return IfaceV{T: anySlice, V: SliceV{Arr: arr, Len: s.Len, Cap: s.Len}}
	case *types.Interface:
		iv := v.(IfaceV)
		if iv.T == nil {
			return IfaceV{}
		}
		return x.jsonImage(iv.T, iv.V, nonFinite)
	case *types.Pointer:
		p := v.(*Cell)
		if p == nil {
			return IfaceV{}
		}
		return x.jsonImage(u.Elem(), x.load(p), nonFinite)
	case *types.Struct:
		sv := v.(*StructV)
		m := map[string]Value{}
		for i := 0; i < u.NumFields(); i++ {
			f := u.Field(i)
			if !f.Exported() {
				continue
			}
			name := f.Name()
			if tag := reflect.StructTag(u.Tag(i)).Get("json"); tag != "" {
				if j := strings.Index(tag, ","); j >= 0 {
					tag = tag[:j]
				}
				if tag == "-" {
					continue
				}
				if tag != "" {
					name = tag
				}
			}
			m[name] = x.jsonImage(f.Type(), sv.F[i], nonFinite)
		}
		return jsonObj(m)
	}
	panic(x.unsupported("json image of %v", t))
}

type jsonObj map[string]Value

func inJSONMarshal(x *Exec, fn *ssa.Function, a []Value) Value {
	iv := a[0].(IfaceV)
	var nonFinite []*smt.Term
	var img Value = IfaceV{}
	if iv.T != nil {
		img = x.jsonImage(iv.T, iv.V, &nonFinite)
	}
	if x.Branch(x.C.Or(nonFinite...)) {
		return Tuple{SliceV{}, x.mkErrorFresh("json: unsupported value: non-finite float")}
	}
	arr := x.newArray(types.Typ[types.Uint8], 1)
	arr.Sub[0].V = x.C.BVC(8, '{')
	arr.Meta = &jsonDoc{img: img}
	return Tuple{SliceV{Arr: arr, Len: 1, Cap: 1}, IfaceV{}}
}

func inJSONUnmarshal(x *Exec, fn *ssa.Function, a []Value) Value {
	data := a[0].(SliceV)
	var doc *jsonDoc
	if data.Arr != nil {
		doc, _ = data.Arr.Meta.(*jsonDoc)
	}
	if doc == nil || data.Off != 0 {
		panic(x.unsupported("json.Unmarshal of bytes that do not come from json.Marshal"))
	}
	dst := a[1].(IfaceV)
	pt, ok := dst.T.Underlying().(*types.Pointer)
	if !ok || dst.V.(*Cell) == nil {
		return x.mkErrorFresh("json: Unmarshal(non-pointer)")
	}
	cell := dst.V.(*Cell)
	st, ok := pt.Elem().Underlying().(*types.Struct)
	obj, isObj := doc.img.(jsonObj)
	if !ok || !isObj {
		panic(x.unsupported("json.Unmarshal into %v", dst.T))
	}
	for i := 0; i < st.NumFields(); i++ {
		f := st.Field(i)
		name := f.Name()
		if tag := reflect.StructTag(st.Tag(i)).Get("json"); tag != "" {
			if j := strings.Index(tag, ","); j >= 0 {
				tag = tag[:j]
			}
			if tag != "" {
				name = tag
			}
		}
		img, present := obj[name]
		if !present {
			continue
		}
		iv := img.(IfaceV)
		switch ft := f.Type().Underlying().(type) {
		case *types.Interface:
			cell.Sub[i].V = iv
		case *types.Basic:
			if ft.Info()&types.IsString != 0 {
				if iv.T == nil {
					continue
				}
				if !types.Identical(iv.T, types.Typ[types.String]) {
					return x.mkErrorFresh("json: cannot unmarshal into string field")
				}
				cell.Sub[i].V = iv.V
				continue
			}
			panic(x.unsupported("json.Unmarshal field of type %v", f.Type()))
		default:
			panic(x.unsupported("json.Unmarshal field of type %v", f.Type()))
		}
	}
	return IfaceV{}
}
