package ssaexec

import (
	"fmt"
	"go/types"
	"math"
	"strconv"
	"strings"

	"golang.org/x/tools/go/ssa"

	"gosmt/smt"
)

type intrinsic func(x *Exec, fn *ssa.Function, args []Value) Value

var intrinsics = map[string]intrinsic{}

func init() {
	base := map[string]intrinsic{
		"math.Min":             inMathMin,
		"math.Max":             inMathMax,
		"math.Abs":             func(x *Exec, _ *ssa.Function, a []Value) Value { return x.C.FAbs(a[0].(*smt.Term)) },
		"math.Sqrt":            func(x *Exec, _ *ssa.Function, a []Value) Value { return x.C.FSqrt(a[0].(*smt.Term)) },
		"math.Inf":             inMathInf,
		"math.NaN":             func(x *Exec, _ *ssa.Function, a []Value) Value { return x.C.FCBits(smt.CanonNaN) },
		"math.IsNaN":           func(x *Exec, _ *ssa.Function, a []Value) Value { return x.C.FIsNaN(a[0].(*smt.Term)) },
		"math.IsInf":           inMathIsInf,
		"math.Float64bits":     func(x *Exec, _ *ssa.Function, a []Value) Value { return x.C.FBits(a[0].(*smt.Term)) },
		"math.Float64frombits": func(x *Exec, _ *ssa.Function, a []Value) Value { return x.C.FFromBits(a[0].(*smt.Term)) },
		"math.Nextafter":       inMathNextafter,
		"math.Signbit":         func(x *Exec, _ *ssa.Function, a []Value) Value { return x.C.FIsNeg(a[0].(*smt.Term)) },
		"math.Hypot":           ufMath("hypot"),
		"math.Sin":             ufMath("sin"),
		"math.Cos":             ufMath("cos"),
		"math.Tan":             ufMath("tan"),
		"math.Asin":            ufMath("asin"),
		"math.Acos":            ufMath("acos"),
		"math.Atan":            ufMath("atan"),
		"math.Atan2":           ufMath("atan2"),
		"math.Exp":             ufMath("exp"),
		"math.Log":             ufMath("log"),
		"math.Pow":             ufMath("pow"),
		"math.Floor":           ufMath("floor"),
		"math.Trunc":           ufMath("trunc"),
		"math.Sinh":            ufMath("sinh"),
		"math.Cosh":            ufMath("cosh"),
		"math.Mod":             ufMath("mod"),

		"encoding/binary.Read":  inBinaryRead,
		"encoding/binary.Write": inBinaryWrite,

		"fmt.Errorf":   inFmtErrorf,
		"fmt.Sprintf":  inFmtSprintf,
		"fmt.Sprint":   inFmtSprint,
		"fmt.Sprintln": inFmtSprint,
		"fmt.Println":  func(x *Exec, _ *ssa.Function, a []Value) Value { return Tuple{x.C.IntC(64, 0), IfaceV{}} },
		"fmt.Printf":   func(x *Exec, _ *ssa.Function, a []Value) Value { return Tuple{x.C.IntC(64, 0), IfaceV{}} },
		"log.Println":  func(x *Exec, _ *ssa.Function, a []Value) Value { return nil },
		"log.Printf":   func(x *Exec, _ *ssa.Function, a []Value) Value { return nil },

		"reflect.TypeOf":    inReflectTypeOf,
		"reflect.DeepEqual": inReflectDeepEqual,

		"strconv.AppendFloat": func(x *Exec, fn *ssa.Function, a []Value) Value {
			f := a[1].(*smt.Term)
			fm, prec, bits := a[2].(*smt.Term), a[3].(*smt.Term), a[4].(*smt.Term)
			if !(fm.IsConst() && prec.IsConst() && bits.IsConst()) {
				panic(x.unsupported("strconv.AppendFloat with symbolic format"))
			}
			tok := NumTok{F: f}
			if !(fm.U == 'g' && prec.Int() == -1 && bits.Int() == 64) {
				tok.Lossy = fmt.Sprintf("%c_%d_%d", byte(fm.U), prec.Int(), bits.Int())
			}
			return x.appendValues(a[0].(SliceV), types.Typ[types.Uint8], []Value{tok})
		},
		// strconv.AppendInt(dst, n, 10) with a symbolic n: one number token whose
		// text an OGC/JSON number parser reads back as float64(n) (correctly
		// rounded decimal->binary conversion of an integer literal).
		"strconv.AppendInt": func(x *Exec, fn *ssa.Function, a []Value) Value {
			n, base := a[1].(*smt.Term), a[2].(*smt.Term)
			if !base.IsConst() || base.Int() != 10 {
				panic(x.unsupported("strconv.AppendInt with base other than 10"))
			}
			if n.IsConst() {
				var vs []Value
				for _, b := range []byte(strconv.FormatInt(n.Int(), 10)) {
					vs = append(vs, x.C.IntC(8, int64(b)))
				}
				return x.appendValues(a[0].(SliceV), types.Typ[types.Uint8], vs)
			}
			return x.appendValues(a[0].(SliceV), types.Typ[types.Uint8], []Value{NumTok{F: x.C.FFromSInt(n)}})
		},
		"strconv.Itoa": func(x *Exec, _ *ssa.Function, a []Value) Value {
			t := a[0].(*smt.Term)
			if !t.IsConst() {
				return Str{S: "<int>"}
			}
			return Str{S: strconv.Itoa(int(t.Int()))}
		},
		"strings.ToLower":   strFn1(strings.ToLower),
		"strings.ToUpper":   strFn1(strings.ToUpper),
		"strings.TrimSpace": strFn1(strings.TrimSpace),
		"strings.Contains":  strPred2(strings.Contains),
		"strings.HasPrefix": strPred2(strings.HasPrefix),
		"strings.HasSuffix": strPred2(strings.HasSuffix),
		"strings.EqualFold": strPred2(strings.EqualFold),
		"strings.Index":     strInt2(strings.Index),
		"strings.LastIndex": strInt2(strings.LastIndex),
		"strings.Trim":      strFn2(strings.Trim),
		"strings.TrimSuffix": strFn2(strings.TrimSuffix),
		"strings.TrimPrefix": strFn2(strings.TrimPrefix),
		"strings.TrimLeft":  strFn2(strings.TrimLeft),
		"strings.TrimRight": strFn2(strings.TrimRight),
		"strings.Split":     inStringsSplit,
		"strings.Join": func(x *Exec, _ *ssa.Function, a []Value) Value {
			var parts []string
			for _, v := range sliceValues(x, a[0]) {
				parts = append(parts, x.mustStr(v))
			}
			return Str{S: strings.Join(parts, x.mustStr(a[1]))}
		},
		"strings.Replace": func(x *Exec, _ *ssa.Function, a []Value) Value {
			return Str{S: strings.Replace(x.mustStr(a[0]), x.mustStr(a[1]), x.mustStr(a[2]), int(a[3].(*smt.Term).Int()))}
		},
		"strconv.ParseFloat": func(x *Exec, _ *ssa.Function, a []Value) Value {
			if hv, ok := x.holeValue(x.mustStr(a[0])); ok {
				return Tuple{hv, IfaceV{}}
			}
			if strings.Contains(x.mustStr(a[0]), "@") {
				return Tuple{x.C.FC(0), x.mkError("strconv.ParseFloat: placeholder embedded in other text: " + x.mustStr(a[0]))}
			}
			f, err := strconv.ParseFloat(x.mustStr(a[0]), int(a[1].(*smt.Term).Int()))
			if err != nil {
				return Tuple{x.C.FC(f), x.mkError("strconv.ParseFloat: " + err.Error())}
			}
			return Tuple{x.C.FC(f), IfaceV{}}
		},
		"strconv.ParseInt": func(x *Exec, _ *ssa.Function, a []Value) Value {
			v, err := strconv.ParseInt(x.mustStr(a[0]), int(a[1].(*smt.Term).Int()), int(a[2].(*smt.Term).Int()))
			if err != nil {
				return Tuple{x.C.IntC(64, v), x.mkError("strconv.ParseInt: " + err.Error())}
			}
			return Tuple{x.C.IntC(64, v), IfaceV{}}
		},
		"strconv.Atoi": func(x *Exec, _ *ssa.Function, a []Value) Value {
			v, err := strconv.Atoi(x.mustStr(a[0]))
			if err != nil {
				return Tuple{x.C.IntC(64, int64(v)), x.mkError("strconv.Atoi: " + err.Error())}
			}
			return Tuple{x.C.IntC(64, int64(v)), IfaceV{}}
		},
		"runtime.GOMAXPROCS": func(x *Exec, _ *ssa.Function, a []Value) Value { return x.C.IntC(64, int64(x.Opt.Workers)) },
	}
	for k, v := range base {
		intrinsics[k] = v
	}
}

func (x *Exec) mustStr(v Value) string {
	s, ok := x.concreteStr(v.(Str))
	if !ok {
		panic(x.unsupported("symbolic string passed to a concrete string intrinsic"))
	}
	return s
}

func strFn1(f func(string) string) intrinsic {
	return func(x *Exec, _ *ssa.Function, a []Value) Value { return Str{S: f(x.mustStr(a[0]))} }
}
func strFn2(f func(string, string) string) intrinsic {
	return func(x *Exec, _ *ssa.Function, a []Value) Value { return Str{S: f(x.mustStr(a[0]), x.mustStr(a[1]))} }
}
func strPred2(f func(string, string) bool) intrinsic {
	return func(x *Exec, _ *ssa.Function, a []Value) Value {
		return x.C.BoolC(f(x.mustStr(a[0]), x.mustStr(a[1])))
	}
}
func strInt2(f func(string, string) int) intrinsic {
	return func(x *Exec, _ *ssa.Function, a []Value) Value {
		return x.C.IntC(64, int64(f(x.mustStr(a[0]), x.mustStr(a[1]))))
	}
}

func inStringsSplit(x *Exec, fn *ssa.Function, a []Value) Value {
	parts := strings.Split(x.mustStr(a[0]), x.mustStr(a[1]))
	arr := x.newArray(types.Typ[types.String], len(parts))
	for i, p := range parts {
		arr.Sub[i].V = Str{S: p}
	}
	return SliceV{Arr: arr, Len: len(parts), Cap: len(parts)}
}

func ufMath(name string) intrinsic {
	return func(x *Exec, _ *ssa.Function, a []Value) Value {
		ts := make([]*smt.Term, len(a))
		for i := range a {
			ts[i] = a[i].(*smt.Term)
		}
		return x.C.UF(name, smt.F64, ts...)
	}
}

// math.Min with Go's special cases:
//
//	Min(x, -Inf) = Min(-Inf, x) = -Inf; Min(x, NaN) = Min(NaN, x) = NaN; Min(-0, ±0) = Min(±0, -0) = -0
func inMathMin(x *Exec, _ *ssa.Function, a []Value) Value {
	c := x.C
	p, q := a[0].(*smt.Term), a[1].(*smt.Term)
	ninf := c.FC(math.Inf(-1))
	nan := c.FCBits(smt.CanonNaN)
	anyNaN := c.Or(c.FIsNaN(p), c.FIsNaN(q))
	anyNInf := c.Or(c.FEq(p, ninf), c.FEq(q, ninf))
	return c.Ite(anyNaN, c.Ite(anyNInf, ninf, nan), c.Ite(c.FTotLe(p, q), p, q))
}

// math.Max: Max(x, +Inf) = Max(+Inf, x) = +Inf; Max(x, NaN) = Max(NaN, x) = NaN;
// Max(+0, ±0) = Max(±0, +0) = +0
func inMathMax(x *Exec, _ *ssa.Function, a []Value) Value {
	c := x.C
	p, q := a[0].(*smt.Term), a[1].(*smt.Term)
	pinf := c.FC(math.Inf(1))
	nan := c.FCBits(smt.CanonNaN)
	anyNaN := c.Or(c.FIsNaN(p), c.FIsNaN(q))
	anyPInf := c.Or(c.FEq(p, pinf), c.FEq(q, pinf))
	return c.Ite(anyNaN, c.Ite(anyPInf, pinf, nan), c.Ite(c.FTotLe(q, p), p, q))
}

func inMathInf(x *Exec, _ *ssa.Function, a []Value) Value {
	s := a[0].(*smt.Term)
	c := x.C
	return c.Ite(c.SLe(c.IntC(64, 0), s), c.FC(math.Inf(1)), c.FC(math.Inf(-1)))
}

func inMathIsInf(x *Exec, _ *ssa.Function, a []Value) Value {
	c := x.C
	f, s := a[0].(*smt.Term), a[1].(*smt.Term)
	pos := c.FEq(f, c.FC(math.Inf(1)))
	neg := c.FEq(f, c.FC(math.Inf(-1)))
	z := c.IntC(64, 0)
	return c.Or(c.And(c.SLe(z, s), pos), c.And(c.SLe(s, z), neg))
}

func inMathNextafter(x *Exec, _ *ssa.Function, a []Value) Value {
	c := x.C
	p, q := a[0].(*smt.Term), a[1].(*smt.Term)
	nan := c.FCBits(smt.CanonNaN)
	return c.Ite(c.Or(c.FIsNaN(p), c.FIsNaN(q)), nan,
		c.Ite(c.FEq(p, q), p, c.Ite(c.FLt(p, q), c.FNextUp(p), c.FNextDown(p))))
}

// ---- errors / fmt ----

func (x *Exec) mkError(msg string) IfaceV {
	if e, ok := x.errCache[msg]; ok {
		return e
	}
	pkg := x.Prog.ImportedPackage("errors")
	if pkg == nil {
		panic(x.unsupported("package errors not loaded"))
	}
	t := pkg.Type("errorString").Type()
	cell := x.newCell(t)
	cell.Sub[0].V = Str{S: msg}
	e := IfaceV{T: types.NewPointer(t), V: cell}
	x.errCache[msg] = e
	return e
}

func (x *Exec) fmtString(a []Value) string {
	var sb strings.Builder
	for i, v := range a {
		if i > 0 {
			sb.WriteString(" ")
		}
		sb.WriteString(x.showValue(v, 0))
	}
	return sb.String()
}

func (x *Exec) showValue(v Value, depth int) string {
	if depth > 3 {
		return "..."
	}
	switch v := v.(type) {
	case Str:
		if s, ok := x.concreteStr(v); ok {
			return s
		}
		return "<symbolic string>"
	case *smt.Term:
		if v.IsConst() {
			switch v.Sort.K {
			case smt.KBool:
				return fmt.Sprint(v.U == 1)
			case smt.KF64:
				return fmt.Sprint(v.Float())
			}
			return fmt.Sprint(v.Int())
		}
		return "<sym>"
	case IfaceV:
		if v.T == nil {
			return "<nil>"
		}
		return x.showValue(v.V, depth+1)
	case SliceV:
		var parts []string
		for i := 0; i < v.Len && i < 8; i++ {
			parts = append(parts, x.showValue(x.load(v.Arr.Sub[v.Off+i]), depth+1))
		}
		return "[" + strings.Join(parts, " ") + "]"
	case *StructV:
		var parts []string
		for _, f := range v.F {
			parts = append(parts, x.showValue(f, depth+1))
		}
		return "{" + strings.Join(parts, " ") + "}"
	case *Cell:
		if v == nil {
			return "<nil>"
		}
		return "&" + x.showValue(x.load(v), depth+1)
	}
	return fmt.Sprintf("<%T>", v)
}

func sliceValues(x *Exec, v Value) []Value {
	s, ok := v.(SliceV)
	if !ok {
		return nil
	}
	out := make([]Value, s.Len)
	for i := range out {
		out[i] = x.load(s.Arr.Sub[s.Off+i])
	}
	return out
}

func inFmtErrorf(x *Exec, _ *ssa.Function, a []Value) Value {
	f, _ := x.concreteStr(a[0].(Str))
	// errors made by formatting are distinct objects per call site text
	cell := x.mkErrorFresh("fmt.Errorf(" + f + "): " + x.fmtString(sliceValues(x, a[1])))
	return cell
}

func (x *Exec) mkErrorFresh(msg string) IfaceV {
	pkg := x.Prog.ImportedPackage("errors")
	t := pkg.Type("errorString").Type()
	cell := x.newCell(t)
	cell.Sub[0].V = Str{S: msg}
	return IfaceV{T: types.NewPointer(t), V: cell}
}

func inFmtSprintf(x *Exec, _ *ssa.Function, a []Value) Value {
	f, _ := x.concreteStr(a[0].(Str))
	return Str{S: "Sprintf(" + f + "): " + x.fmtString(sliceValues(x, a[1]))}
}

func inFmtSprint(x *Exec, _ *ssa.Function, a []Value) Value {
	return Str{S: x.fmtString(sliceValues(x, a[0]))}
}

// ---- reflect (small subset) ----

// reflect.Type values are modelled as an interface holding rtypeV.
type rtypeV struct{ T types.Type }

func inReflectTypeOf(x *Exec, fn *ssa.Function, a []Value) Value {
	iv := a[0].(IfaceV)
	if iv.T == nil {
		return IfaceV{}
	}
	return IfaceV{T: fn.Signature.Results().At(0).Type(), V: rtypeV{T: iv.T}}
}

func inReflectDeepEqual(x *Exec, _ *ssa.Function, a []Value) Value {
	p, q := a[0].(IfaceV), a[1].(IfaceV)
	if p.T == nil || q.T == nil {
		return x.C.BoolC(p.T == nil && q.T == nil)
	}
	if !types.Identical(p.T, q.T) {
		return x.C.False()
	}
	return x.deepEqual(p.T, p.V, q.V, 0)
}

func (x *Exec) deepEqual(t types.Type, a, b Value, depth int) *smt.Term {
	c := x.C
	if depth > 20 {
		panic(x.unsupported("DeepEqual recursion too deep"))
	}
	switch u := t.Underlying().(type) {
	case *types.Slice:
		sa, sb := a.(SliceV), b.(SliceV)
		if (sa.Arr == nil) != (sb.Arr == nil) {
			return c.False()
		}
		if sa.Len != sb.Len {
			return c.False()
		}
		if sa.Arr == sb.Arr && sa.Off == sb.Off {
			return c.True()
		}
		var cs []*smt.Term
		for i := 0; i < sa.Len; i++ {
			cs = append(cs, x.deepEqual(u.Elem(), x.load(sa.Arr.Sub[sa.Off+i]), x.load(sb.Arr.Sub[sb.Off+i]), depth+1))
		}
		return c.And(cs...)
	case *types.Struct:
		sa, sb := a.(*StructV), b.(*StructV)
		var cs []*smt.Term
		for i := range sa.F {
			cs = append(cs, x.deepEqual(u.Field(i).Type(), sa.F[i], sb.F[i], depth+1))
		}
		return c.And(cs...)
	case *types.Array:
		sa, sb := a.(*ArrayV), b.(*ArrayV)
		var cs []*smt.Term
		for i := range sa.E {
			cs = append(cs, x.deepEqual(u.Elem(), sa.E[i], sb.E[i], depth+1))
		}
		return c.And(cs...)
	case *types.Pointer:
		pa, pb := a.(*Cell), b.(*Cell)
		if pa == pb {
			return c.True()
		}
		if pa == nil || pb == nil {
			return c.False()
		}
		return x.deepEqual(u.Elem(), x.load(pa), x.load(pb), depth+1)
	case *types.Interface:
		ia, ib := a.(IfaceV), b.(IfaceV)
		if ia.T == nil || ib.T == nil {
			return c.BoolC(ia.T == nil && ib.T == nil)
		}
		if !types.Identical(ia.T, ib.T) {
			return c.False()
		}
		return x.deepEqual(ia.T, ia.V, ib.V, depth+1)
	case *types.Map:
		ma, mb := a.(*MapV), b.(*MapV)
		if (ma == nil) != (mb == nil) || ma.Len() != mb.Len() {
			return c.False()
		}
		var cs []*smt.Term
		for _, i := range ma.live() {
			v, ok := mb.lookup(x.keyOf(ma.Keys[i]))
			if !ok {
				return c.False()
			}
			cs = append(cs, x.deepEqual(u.Elem(), ma.Vals[i], v, depth+1))
		}
		return c.And(cs...)
	case *types.Signature:
		return c.BoolC(isNilValue(a) && isNilValue(b))
	}
	return x.equal(t, a, b)
}

// modelMethod supplies engine implementations for methods of modelled
// dynamic types (reflect.Type).
func (x *Exec) modelMethod(recv IfaceV, m *types.Func) Value {
	rt, ok := recv.V.(rtypeV)
	if !ok {
		return nil
	}
	switch m.Name() {
	case "Kind":
		return &nativeFn{name: "reflect.Type.Kind", f: func(x *Exec, args []Value) Value {
			return x.C.BVC(64, uint64(kindOf(rt.T)))
		}}
	case "String", "Name":
		return &nativeFn{name: "reflect.Type." + m.Name(), f: func(x *Exec, args []Value) Value {
			return Str{S: types.TypeString(rt.T, func(p *types.Package) string { return p.Name() })}
		}}
	}
	panic(x.unsupported("reflect.Type.%s", m.Name()))
}

// ---- encoding/binary ----

func byteOrderOf(x *Exec, v Value) (little bool) {
	iv := v.(IfaceV)
	if iv.T == nil {
		x.rtPanic("nil ByteOrder")
	}
	switch iv.T.String() {
	case "encoding/binary.littleEndian":
		return true
	case "encoding/binary.bigEndian":
		return false
	}
	panic(x.unsupported("ByteOrder implementation %v", iv.T))
}

// fixedSize returns the encoded size of a value of type t (reflect-path
// semantics of encoding/binary), or -1.
func (x *Exec) binSize(t types.Type, v Value) int {
	switch u := t.Underlying().(type) {
	case *types.Basic:
		switch u.Kind() {
		case types.Bool, types.Int8, types.Uint8:
			return 1
		case types.Int16, types.Uint16:
			return 2
		case types.Int32, types.Uint32, types.Float32:
			return 4
		case types.Int64, types.Uint64, types.Float64, types.Complex64:
			return 8
		}
		return -1
	case *types.Struct:
		s := 0
		for i := 0; i < u.NumFields(); i++ {
			n := x.binSize(u.Field(i).Type(), nil)
			if n < 0 {
				return -1
			}
			s += n
		}
		return s
	case *types.Array:
		n := x.binSize(u.Elem(), nil)
		if n < 0 {
			return -1
		}
		return n * int(u.Len())
	case *types.Slice:
		n := x.binSize(u.Elem(), nil)
		if n < 0 {
			return -1
		}
		if v == nil {
			return -1
		}
		return n * v.(SliceV).Len
	}
	return -1
}

func (x *Exec) binEncode(t types.Type, v Value, little bool, out *[]*smt.Term) {
	c := x.C
	put := func(b *smt.Term) {
		n := b.Sort.W / 8
		for i := 0; i < n; i++ {
			k := i
			if !little {
				k = n - 1 - i
			}
			*out = append(*out, c.Extract(b, 8*k+7, 8*k))
		}
	}
	switch u := t.Underlying().(type) {
	case *types.Basic:
		tm := v.(*smt.Term)
		switch {
		case u.Kind() == types.Bool:
			put(c.Ite(tm, c.BVC(8, 1), c.BVC(8, 0)))
		case u.Kind() == types.Float64:
			put(c.FBits(tm))
		case u.Info()&types.IsInteger != 0:
			put(tm)
		default:
			panic(x.unsupported("binary encode of %v", t))
		}
	case *types.Struct:
		sv := v.(*StructV)
		for i := range sv.F {
			x.binEncode(u.Field(i).Type(), sv.F[i], little, out)
		}
	case *types.Array:
		av := v.(*ArrayV)
		for i := range av.E {
			x.binEncode(u.Elem(), av.E[i], little, out)
		}
	case *types.Slice:
		sv := v.(SliceV)
		for i := 0; i < sv.Len; i++ {
			x.binEncode(u.Elem(), x.load(sv.Arr.Sub[sv.Off+i]), little, out)
		}
	default:
		panic(x.unsupported("binary encode of %v", t))
	}
}

func (x *Exec) binDecode(t types.Type, dst *Cell, little bool, in []*smt.Term, pos *int) {
	c := x.C
	get := func(n int) *smt.Term {
		bs := in[*pos : *pos+n]
		*pos += n
		var r *smt.Term
		for i := 0; i < n; i++ {
			k := i
			if little {
				k = n - 1 - i
			}
			// build from most significant byte down
			if r == nil {
				r = bs[k]
			} else {
				r = c.Concat(r, bs[k])
			}
		}
		return r
	}
	switch u := t.Underlying().(type) {
	case *types.Basic:
		switch {
		case u.Kind() == types.Bool:
			x.store(dst, c.Not(c.Eq(get(1), c.BVC(8, 0))))
		case u.Kind() == types.Float64:
			x.store(dst, c.FFromBits(get(8)))
		case u.Info()&types.IsInteger != 0:
			w, _ := x.intWidth(t)
			x.store(dst, get(w/8))
		default:
			panic(x.unsupported("binary decode of %v", t))
		}
	case *types.Struct:
		for i := range dst.Sub {
			if u.Field(i).Name() == "_" {
				*pos += x.binSize(u.Field(i).Type(), nil)
				continue
			}
			x.binDecode(u.Field(i).Type(), dst.Sub[i], little, in, pos)
		}
	case *types.Array:
		for i := range dst.Sub {
			x.binDecode(u.Elem(), dst.Sub[i], little, in, pos)
		}
	default:
		panic(x.unsupported("binary decode of %v", t))
	}
}

func (x *Exec) callMethod(recv IfaceV, name string, args ...Value) Value {
	ms := x.Prog.MethodSets.MethodSet(recv.T)
	for i := 0; i < ms.Len(); i++ {
		sel := ms.At(i)
		if sel.Obj().Name() == name {
			fn := x.Prog.MethodValue(sel)
			return x.call(fn, append([]Value{recv.V}, args...), nil)
		}
	}
	panic(x.unsupported("method %s on %v", name, recv.T))
}

func (x *Exec) stdFunc(pkg, name string) *ssa.Function {
	p := x.Prog.ImportedPackage(pkg)
	if p == nil {
		panic(x.unsupported("package %s not loaded", pkg))
	}
	f := p.Func(name)
	if f == nil {
		panic(x.unsupported("%s.%s not found", pkg, name))
	}
	return f
}

func inBinaryWrite(x *Exec, fn *ssa.Function, a []Value) Value {
	w := a[0].(IfaceV)
	little := byteOrderOf(x, a[1])
	data := a[2].(IfaceV)
	if data.T == nil {
		return x.mkError("binary.Write: invalid type <nil>")
	}
	t, v := data.T, data.V
	if p, ok := t.Underlying().(*types.Pointer); ok {
		cell := v.(*Cell)
		if cell == nil {
			return x.mkError("binary.Write: nil pointer")
		}
		t, v = p.Elem(), x.load(cell)
	}
	if x.binSize(t, v) < 0 {
		return x.mkError("binary.Write: some values are not fixed-sized in type " + data.T.String())
	}
	var bs []*smt.Term
	x.binEncode(t, v, little, &bs)
	arr := x.newArray(types.Typ[types.Uint8], len(bs))
	for i, b := range bs {
		arr.Sub[i].V = b
	}
	res := x.callMethod(w, "Write", SliceV{Arr: arr, Len: len(bs), Cap: len(bs)}).(Tuple)
	return res[1]
}

func inBinaryRead(x *Exec, fn *ssa.Function, a []Value) Value {
	r := a[0]
	little := byteOrderOf(x, a[1])
	data := a[2].(IfaceV)
	if data.T == nil {
		return x.mkError("binary.Read: invalid type <nil>")
	}
	var t types.Type
	var targets []*Cell
	switch u := data.T.Underlying().(type) {
	case *types.Pointer:
		cell := data.V.(*Cell)
		if cell == nil {
			return x.mkError("binary.Read: nil pointer")
		}
		t = u.Elem()
		if sl, ok := t.Underlying().(*types.Slice); ok {
			sv := cell.V.(SliceV)
			t = sl.Elem()
			for i := 0; i < sv.Len; i++ {
				targets = append(targets, sv.Arr.Sub[sv.Off+i])
			}
		} else {
			targets = []*Cell{cell}
		}
	case *types.Slice:
		sv := data.V.(SliceV)
		t = u.Elem()
		for i := 0; i < sv.Len; i++ {
			targets = append(targets, sv.Arr.Sub[sv.Off+i])
		}
	default:
		return x.mkError("binary.Read: invalid type " + data.T.String())
	}
	es := x.binSize(t, nil)
	if es < 0 {
		return x.mkError("binary.Read: invalid type " + data.T.String())
	}
	size := es * len(targets)
	arr := x.newArray(types.Typ[types.Uint8], size)
	buf := SliceV{Arr: arr, Len: size, Cap: size}
	res := x.call(x.stdFunc("io", "ReadFull"), []Value{r, buf}, nil).(Tuple)
	if err := res[1].(IfaceV); err.T != nil {
		return err
	}
	in := make([]*smt.Term, size)
	for i := range in {
		in[i] = arr.Sub[i].V.(*smt.Term)
	}
	pos := 0
	for _, c := range targets {
		x.binDecode(t, c, little, in, &pos)
	}
	return IfaceV{}
}
