package ssaexec

import (
	"fmt"
	"os"
	"sync"
	"go/types"
	"sort"
	"strings"

	"golang.org/x/tools/go/ssa"

	"gosmt/smt"
)

// Input is one harness input in tape order.
type Input struct {
	Kind string // bool byte u32 u64 f64 grid int choose
	Term *smt.Term
	Val  uint64 // for choose: the concrete choice
	Lo   int64
	W, S int
}

// Finding is a candidate violation on one path.
type Finding struct {
	Kind    string // assert | panic | unwind | alloc
	Label   string
	Msg     string
	Model   smt.Model
	Tape    []TapeEntry
	Path    []int
	Harness string
	OverApprox bool
}

type TapeEntry struct {
	Kind string `json:"k"`
	V    uint64 `json:"v"`
}

// pathEnd terminates the current path (not a target panic).
type pathEnd struct{ reason string }

// engineError is an unsupported feature or internal inconsistency: the check
// is broken (exit 2), never a verdict.
type engineError struct{ msg string }

func (e *engineError) Error() string { return e.msg }

type targetPanic struct {
	v   Value
	msg string
}

// Options configure one harness exploration.
type Options struct {
	MaxUnwind   int // symbolic back-edge budget per loop site per frame
	MaxSplit    int // case-split bound for symbolic allocation sizes (0 = MaxUnwind)
	MaxSteps    int
	MaxPaths    int
	AllocLimit  func(inputLen int) int64 // nil = no allocation metering
	InitPkgs    []*ssa.Package
	FloatMode   string // F | G
	OneShotHard bool
	UnwindIsViolation bool
	MapOrders bool
	Workers   int
	Tier      int
	Merge     map[string]bool
	IfConv    bool
	Preempt   int // bound on preemptive context switches per path (-1 = unbounded)
}

type PathResult struct {
	Decisions []int
	End       string
	Reached   []string
	Findings  []*Finding
	Steps     int
}

// scope is one level of decision bookkeeping: the whole path at top level,
// or the local exploration of a merged (pure) callee.
type scope struct {
	lazy   bool // merged pure call: fork without feasibility queries (except in loops)
	prefix []int
	pos    int
	trace  []int
	forks  [][]int
}

type mergeAbort struct{ why string }

// Lifter rewrites float terms for the solver (mode G); TakeAmbig returns the
// conditions under which the rewritten formulas are not determined.
type Lifter interface {
	Lift(*smt.Term) (*smt.Term, error)
	TakeAmbig() []*smt.Term
}

type Exec struct {
	sc        *scope
	mergeMark []int // cell-id watermarks of active merged calls
	threads   []*thread
	cur       *thread
	locks     map[*Cell]*lockState
	groups    map[*Cell]*groupState
	pendingPanic interface{}
	preemptions int
	threadWG  sync.WaitGroup
	Switches  int
	holes     []*smt.Term
	snaps     []*snapshot
	memo      map[string]Value
	ModPath   string
	TapeIn    []TapeEntry
	tapePos   int
	Merged    map[string]int
	Lemmas    map[string]bool
	IfConv    int
	model     smt.Model
	modelOK   bool
	branchRepeat int
	spec      int
	specMark  []int
	specLog   []specWrite
	Poisoned  int
	Undecided int
	Prog *ssa.Program
	C    *smt.Ctx
	S    *smt.Session
	Opt  Options

	// per-path state
	pc       []*smt.Term
	inputs   []Input
	globals  map[*ssa.Global]*Cell
	initDone map[*ssa.Package]bool
	ncell    int
	steps    int
	reached  []string
	findings []*Finding
	harness  string
	allocB   int64
	inputLen int
	stack    []*frame
	errCache map[string]IfaceV
	observes []Observation
	overApprox bool
	lastModel smt.Model

	NewLifter func(*smt.Ctx) Lifter // float-mode rewriting of queries (nil = F)
	lifter    Lifter
	lifterCtx *smt.Ctx
	LiftMode  string

	// accounting over the whole exploration
	Paths      int
	Funcs      map[string]bool
	Intrinsics map[string]bool
	Notes      map[string]bool
}

type Observation struct {
	Label string
	Terms []*smt.Term
}

func (x *Exec) unsupported(format string, args ...interface{}) *engineError {
	msg := fmt.Sprintf(format, args...)
	var where []string
	for i := len(x.stack) - 1; i >= 0 && len(where) < 6; i-- {
		where = append(where, x.stack[i].fn.String())
	}
	return &engineError{msg: "unsupported: " + msg + " in " + strings.Join(where, " <- ")}
}

func (x *Exec) note(s string) {
	if x.Notes == nil {
		x.Notes = map[string]bool{}
	}
	x.Notes[s] = true
}

// ---- path condition and decisions ----

func (x *Exec) query(conds ...*smt.Term) smt.Result {
	all := append(append([]*smt.Term{}, x.pc...), conds...)
	if x.NewLifter != nil {
		// one lifter per query: its undetermined-tie conditions belong to
		// exactly the terms of this query
		x.lifter, x.lifterCtx = x.NewLifter(x.C), x.C
		for i, t := range all {
			lt, err := x.lifter.Lift(t)
			if err != nil {
				x.note("lift: " + err.Error())
				x.overApprox = true
				x.Poisoned++
				lt = x.C.True()
			}
			all[i] = lt
		}
		// queries are decided outside the undetermined (nudge-absorbed) region
		if ex, ok := x.lifter.(interface{ Extra() []*smt.Term }); ok {
			all = append(all, ex.Extra()...)
		}
		for _, a := range x.lifter.TakeAmbig() {
			x.note("G: nudge-absorption ties excluded from the exact domain")
			all = append(all, x.C.Not(a))
		}
	}
	r, err := x.S.Check(all...)
	if err != nil {
		panic(&engineError{msg: "solver: " + err.Error()})
	}
	return r
}

func (x *Exec) assume(c *smt.Term) {
	if c.IsTrue() {
		return
	}
	x.pc = append(x.pc, c)
	if x.modelOK && x.C.Eval(c, x.model) != 1 {
		x.modelOK = false
	}
}

// Branch resolves a Bool term to a concrete outcome on this path, forking.
func (x *Exec) Branch(cond *smt.Term) bool {
	if cond.IsConst() {
		return cond.U == 1
	}
	if x.spec > 0 {
		panic(specAbort{"symbolic branch inside a speculated block"})
	}
	if x.sc.pos < len(x.sc.prefix) {
		d := x.sc.prefix[x.sc.pos]
		x.sc.pos++
		x.sc.trace = append(x.sc.trace, d)
		if d == 1 {
			x.assume(cond)
		} else {
			x.assume(x.C.Not(cond))
		}
		return d == 1
	}
	x.sc.pos++
	if x.sc.lazy && x.branchRepeat <= 1 {
		// both outcomes are explored unchecked; an infeasible one only adds an
		// unsatisfiable arm to the merged ite
		alt := append(append([]int{}, x.sc.trace...), 0)
		x.sc.forks = append(x.sc.forks, alt)
		x.sc.trace = append(x.sc.trace, 1)
		x.assume(cond)
		x.modelOK = false
		return true
	}
	if x.modelOK && os.Getenv("GOSMT_NOMODEL") == "" {
		// the model of the current path condition decides one side for free
		v := x.C.Eval(cond, x.model) == 1
		other := cond
		if v {
			other = x.C.Not(cond)
		}
		ro := x.query(other)
		if ro == smt.Unknown {
			x.note("branch feasibility unknown: kept")
		}
		if ro != smt.Unsat {
			d := 1
			if v {
				d = 0
			}
			alt := append(append([]int{}, x.sc.trace...), d)
			x.sc.forks = append(x.sc.forks, alt)
		}
		if v {
			x.sc.trace = append(x.sc.trace, 1)
			x.assume(cond)
		} else {
			x.sc.trace = append(x.sc.trace, 0)
			x.assume(x.C.Not(cond))
		}
		return v
	}
	rt := x.query(cond)
	if rt == smt.Unknown {
		x.note("branch feasibility unknown: kept")
	}
	if rt == smt.Unsat {
		x.sc.trace = append(x.sc.trace, 0)
		x.assume(x.C.Not(cond))
		return false
	}
	if rt == smt.Sat && x.spec == 0 {
		x.pc = append(x.pc, cond)
		x.model = x.fullModelOf(cond)
		x.pc = x.pc[:len(x.pc)-1]
		x.modelOK = true
	}
	rf := x.query(x.C.Not(cond))
	if rf == smt.Unknown {
		x.note("branch feasibility unknown: kept")
	}
	if rf != smt.Unsat {
		alt := append(append([]int{}, x.sc.trace...), 0)
		x.sc.forks = append(x.sc.forks, alt)
	}
	x.sc.trace = append(x.sc.trace, 1)
	x.assume(cond)
	return true
}

// Choose is an n-way case split without solver involvement.
func (x *Exec) Choose(n int) int {
	if n <= 0 {
		panic(pathEnd{"choose-empty"})
	}
	if n == 1 {
		return 0
	}
	if x.sc.pos < len(x.sc.prefix) {
		d := x.sc.prefix[x.sc.pos]
		x.sc.pos++
		x.sc.trace = append(x.sc.trace, d)
		return d
	}
	x.sc.pos++
	for i := n - 1; i >= 1; i-- {
		alt := append(append([]int{}, x.sc.trace...), i)
		x.sc.forks = append(x.sc.forks, alt)
	}
	x.sc.trace = append(x.sc.trace, 0)
	return 0
}

// Concretize case-splits a symbolic bit-vector over its feasible values, at
// most max of them; more feasible values end in an unwinding failure.
func (x *Exec) Concretize(t *smt.Term, max int, what string) uint64 {
	if t.IsConst() {
		return t.U
	}
	if x.sc.pos < len(x.sc.prefix) {
		d := x.sc.prefix[x.sc.pos]
		x.sc.pos++
		x.sc.trace = append(x.sc.trace, d)
		v := x.C.BVC(t.Sort.W, uint64(d))
		x.assume(x.C.Eq(t, v))
		return uint64(d)
	}
	x.sc.pos++
	var vals []uint64
	var excl []*smt.Term
	for len(vals) <= max {
		r := x.query(excl...)
		if r != smt.Sat {
			if r == smt.Unknown {
				panic(&engineError{msg: "concretize: solver unknown for " + what})
			}
			break
		}
		full := x.fullModel()
		v := x.C.Eval(t, full)
		vals = append(vals, v)
		excl = append(excl, x.C.Not(x.C.Eq(t, x.C.BVC(t.Sort.W, v))))
	}
	if len(vals) == 0 {
		if os.Getenv("GOSMT_DEBUG") != "" {
			fmt.Fprintf(os.Stderr, "CONCRETIZE-INFEASIBLE %s term=%v pcsat=%v npc=%d\n", what, t, x.query(), len(x.pc))
		}
		panic(pathEnd{"infeasible"})
	}
	if len(vals) > max {
		x.unwindFailure(fmt.Sprintf("more than %d feasible values for %s", max, what))
	}
	sort.Slice(vals, func(i, j int) bool { return vals[i] < vals[j] })
	for i := len(vals) - 1; i >= 1; i-- {
		alt := append(append([]int{}, x.sc.trace...), int(vals[i]))
		x.sc.forks = append(x.sc.forks, alt)
	}
	x.sc.trace = append(x.sc.trace, int(vals[0]))
	x.assume(x.C.Eq(t, x.C.BVC(t.Sort.W, vals[0])))
	return vals[0]
}

func (x *Exec) liftedVarProbe(t *smt.Term) *smt.Term {
	vs := smt.CollectVars(t)
	if len(vs) > 0 {
		return vs[0]
	}
	return x.C.True()
}

func (x *Exec) fullModelOf(extra *smt.Term) smt.Model { return x.fullModel() }

// fullModel fetches a model for every input variable after a Sat answer.
func (x *Exec) fullModel() smt.Model {
	var vars []*smt.Term
	seen := map[int]bool{}
	for _, in := range x.inputs {
		if in.Term == nil {
			continue
		}
		for _, v := range smt.CollectVars(in.Term) {
			if !seen[v.ID] {
				seen[v.ID] = true
				vars = append(vars, v)
			}
		}
	}
	for _, v := range smt.CollectVars(x.pc...) {
		if !seen[v.ID] {
			seen[v.ID] = true
			vars = append(vars, v)
		}
	}
	fixer, hasFix := x.lifter.(interface {
		FixModel(smt.Model)
		IntVars() []*smt.Term
	})
	if hasFix {
		vars = append(vars, fixer.IntVars()...)
	}
	m, err := x.S.Model(vars)
	if err != nil {
		panic(&engineError{msg: "model: " + err.Error()})
	}
	if hasFix {
		fixer.FixModel(m)
	}
	return m
}

func (x *Exec) unwindFailure(msg string) {
	f := &Finding{Kind: "unwind", Label: "unwind", Msg: msg, Harness: x.harness, Path: append([]int{}, x.sc.trace...)}
	if x.query() == smt.Sat {
		f.Model = x.fullModel()
		f.Tape = x.tape(f.Model)
	}
	x.findings = append(x.findings, f)
	panic(pathEnd{"unwind"})
}

// tape renders the inputs of this path under a model.
func (x *Exec) tape(m smt.Model) []TapeEntry {
	var out []TapeEntry
	memo := map[int]uint64{}
	for _, in := range x.inputs {
		switch in.Kind {
		case "choose":
			out = append(out, TapeEntry{Kind: in.Kind, V: in.Val})
		default:
			out = append(out, TapeEntry{Kind: in.Kind, V: x.C.EvalMemo(in.Term, m, memo)})
		}
	}
	return out
}

// Assert checks cond on the current path; a feasible negation is a finding.
func (x *Exec) Assert(cond *smt.Term, label string) {
	if cond.IsTrue() {
		return
	}
	neg := x.C.Not(cond)
	r := x.query(neg)
	switch r {
	case smt.Unsat:
		return
	case smt.Unknown:
		x.findings = append(x.findings, &Finding{Kind: "unknown", Label: label, Msg: "solver unknown on assertion", Harness: x.harness, Path: append([]int{}, x.sc.trace...)})
		x.assume(cond)
		return
	}
	m := x.fullModel()
	if x.NewLifter != nil && x.LiftMode == "G" {
		// the model must also satisfy the unlifted terms under real IEEE
		// evaluation; otherwise the lifted encoding is wrong for this input
		for _, t := range append(append([]*smt.Term{}, x.pc...), neg) {
			if x.C.Eval(t, m) != 1 {
				if os.Getenv("GOSMT_DEBUG") != "" {
					l := x.NewLifter(x.C)
					for i, tt := range append(append([]*smt.Term{}, x.pc...), neg) {
						lt, err := l.Lift(tt)
						lv := uint64(9)
						if err == nil {
							lv = x.C.Eval(lt, m)
						}
						fmt.Fprintf(os.Stderr, "  term %d real=%d lifted=%d err=%v\n", i, x.C.Eval(tt, m), lv, err)
					}
					for _, a := range l.TakeAmbig() {
						fmt.Fprintf(os.Stderr, "  ambig=%d %v\n", x.C.Eval(a, m), a)
					}
					fmt.Fprintf(os.Stderr, "LIFT-MISMATCH label=%s term=%s\n model=%v\n", label, x.explainMismatch(t, m), m)
				}
				if x.overApprox {
					// some branch condition of this path left the exact domain and was
					// explored both ways: the candidate does not satisfy the real
					// condition, so it is an artefact; the assertion stays undecided here
					x.note("assertion undecided on an over-approximated path: " + label)
					x.Undecided++
					x.assume(cond)
					return
				}
				x.findings = append(x.findings, &Finding{Kind: "unknown", Label: label, Msg: "lifted encoding disagrees with IEEE evaluation of its own model", Harness: x.harness, Path: append([]int{}, x.sc.trace...)})
				x.assume(cond)
				return
			}
		}
	}
	f := &Finding{Kind: "assert", Label: label, Model: m, Tape: x.tape(m), Harness: x.harness, Path: append([]int{}, x.sc.trace...)}
	if x.overApprox {
		f.Msg = "over-approximated path"
		f.OverApprox = true
	}
	x.findings = append(x.findings, f)
	// continue under the assumption that it held, if that is possible
	if cond.IsFalse() || x.query(cond) != smt.Sat {
		panic(pathEnd{"assert-failed"})
	}
	x.assume(cond)
}

// ---- exploration ----

type Report struct {
	Harness    string
	Paths      int
	Ends       map[string]int
	Reached    map[string]int
	Findings   []*Finding
	Samples    []Sample
	Steps      int
	Truncated  bool
}

type Sample struct {
	Harness string      `json:"harness"`
	Path    []int       `json:"decisions"`
	Tape    []TapeEntry `json:"tape,omitempty"`
	End     string      `json:"end"`
}

// RunPath executes the harness once under the given decision prefix.
func (x *Exec) RunPath(fn *ssa.Function, prefix []int) (res *PathResult, forks [][]int, err error) {
	x.pc = x.pc[:0]
	x.sc = &scope{prefix: prefix}
	x.tapePos = 0
	x.holes = nil
	x.snaps = nil
	x.preemptions = 0
	x.mergeMark = nil
	x.modelOK = false
	x.inputs = nil
	x.globals = map[*ssa.Global]*Cell{}
	x.initDone = map[*ssa.Package]bool{}
	x.ncell = 0
	x.steps = 0
	x.reached = nil
	x.findings = nil
	x.allocB = 0
	x.inputLen = 0
	x.stack = nil
	x.errCache = map[string]IfaceV{}
	x.harness = fn.Name()
	x.overApprox = false
	x.observes = nil
	res = &PathResult{}
	defer func() {
		r := recover()
		x.killThreads()
		x.groups = nil
		res.Decisions = x.sc.trace
		res.Reached = x.reached
		res.Findings = x.findings
		res.Steps = x.steps
		forks = x.sc.forks
		switch r := r.(type) {
		case nil:
			res.End = "ok"
		case pathEnd:
			res.End = r.reason
		case *engineError:
			err = r
			res.End = "engine-error"
		case *targetPanic:
			// uncaught panic in code under test
			msg := x.panicString(r)
			f := &Finding{Kind: "panic", Label: "panic", Msg: msg, Harness: x.harness, Path: append([]int{}, x.sc.trace...), OverApprox: x.overApprox}
			if q := x.safeQuery(); q == smt.Sat {
				f.Model = x.fullModel()
				f.Tape = x.tape(f.Model)
			}
			res.Findings = append(res.Findings, f)
			res.End = "panic"
		default:
			panic(r)
		}
	}()
	for _, p := range x.Opt.InitPkgs {
		x.initPackage(p)
	}
	x.call(fn, nil, nil)
	return
}

func (x *Exec) safeQuery() (r smt.Result) {
	defer func() {
		if e := recover(); e != nil {
			r = smt.Unknown
		}
	}()
	return x.query()
}

// Explore runs all paths of a harness depth-first.
func (x *Exec) Explore(fn *ssa.Function) (*Report, error) {
	rep := &Report{Harness: fn.Name(), Ends: map[string]int{}, Reached: map[string]int{}}
	work := [][]int{nil}
	seenLabel := map[string]bool{}
	for len(work) > 0 {
		if x.Opt.MaxPaths > 0 && rep.Paths >= x.Opt.MaxPaths {
			rep.Truncated = true
			break
		}
		p := work[len(work)-1]
		work = work[:len(work)-1]
		res, forks, err := x.RunPath(fn, p)
		if err != nil {
			return rep, fmt.Errorf("%s: %v (decisions %v)", fn.Name(), err, res.Decisions)
		}
		rep.Paths++
		rep.Steps += res.Steps
		rep.Ends[res.End]++
		for _, l := range res.Reached {
			rep.Reached[l]++
		}
		for _, f := range res.Findings {
			k := f.Kind + "/" + f.Label
			if !seenLabel[k] {
				seenLabel[k] = true
				rep.Findings = append(rep.Findings, f)
			}
		}
		if len(rep.Samples) < 3 && res.End == "ok" {
			s := Sample{Harness: fn.Name(), Path: res.Decisions, End: res.End}
			if x.safeQuery() == smt.Sat {
				s.Tape = x.tape(x.fullModel())
			}
			rep.Samples = append(rep.Samples, s)
		}
		work = append(work, forks...)
	}
	return rep, nil
}

func (x *Exec) panicString(p *targetPanic) string {
	if p.msg != "" {
		return p.msg
	}
	switch v := p.v.(type) {
	case IfaceV:
		if s, ok := v.V.(Str); ok {
			cs, _ := x.concreteStr(s)
			return cs
		}
		if c, ok := v.V.(*Cell); ok && c != nil && len(c.Sub) > 0 {
			if s, ok := c.Sub[0].V.(Str); ok {
				return s.S
			}
		}
		if v.T != nil {
			return "panic value of type " + v.T.String()
		}
	case Str:
		return v.S
	}
	return fmt.Sprintf("%v", p.v)
}

func (x *Exec) runtimeError(msg string) Value {
	// runtime errors implement error (recover().(error) succeeds natively)
	if x.Prog.ImportedPackage("errors") == nil {
		return IfaceV{T: types.Typ[types.String], V: Str{S: "runtime error: " + msg}}
	}
	return x.mkErrorFresh("runtime error: " + msg)
}

func (x *Exec) rtPanic(msg string) {
	panic(&targetPanic{v: x.runtimeError(msg), msg: "runtime error: " + msg})
}


// explainMismatch finds a smallest Bool subterm on which the lifted
// encoding and IEEE evaluation disagree under m.
func (x *Exec) explainMismatch(t *smt.Term, m smt.Model) string {
	l := x.NewLifter(x.C)
	var walk func(t *smt.Term) *smt.Term
	seen := map[int]bool{}
	walk = func(t *smt.Term) *smt.Term {
		if seen[t.ID] {
			return nil
		}
		seen[t.ID] = true
		for _, a := range t.Args {
			if r := walk(a); r != nil {
				return r
			}
		}
		if t.Sort.K != smt.KBool {
			return nil
		}
		lt, err := l.Lift(t)
		if err != nil {
			return nil
		}
		if x.C.Eval(lt, m) != x.C.Eval(t, m) {
			return t
		}
		return nil
	}
	if r := walk(t); r != nil {
		lt, _ := l.Lift(r)
		return fmt.Sprintf("%v  real=%d lifted=%d  liftedterm=%v", r, x.C.Eval(r, m), x.C.Eval(lt, m), lt)
	}
	return "no Bool subterm disagrees (ambiguity exclusion?)"
}
