package ssaexec

import (
	"fmt"
	"strings"
	"go/constant"
	"go/token"
	"go/types"
	"math"

	"golang.org/x/tools/go/ssa"

	"gosmt/smt"
)

type deferred struct {
	fn   Value
	args []Value
	inst *ssa.Defer
}

type frame struct {
	fn        *ssa.Function
	env       map[ssa.Value]Value
	block     *ssa.BasicBlock
	prev      *ssa.BasicBlock
	defers    []deferred
	result    Value
	panicking bool
	panicV    interface{}
	caller    *frame
	backedges map[*ssa.BasicBlock]int
	locals    []*Cell
	skipPhis  bool
}

func (x *Exec) get(fr *frame, v ssa.Value) Value {
	switch v := v.(type) {
	case *ssa.Const:
		return x.constValue(v)
	case *ssa.Function:
		return v
	case *ssa.Builtin:
		return v
	case *ssa.Global:
		return x.global(v)
	case nil:
		return nil
	}
	if r, ok := fr.env[v]; ok {
		return r
	}
	panic(x.unsupported("get: no value for %s (%T) in %s", v.Name(), v, fr.fn))
}

func (x *Exec) constValue(k *ssa.Const) Value {
	t := k.Type()
	if k.Value == nil {
		return x.zero(t)
	}
	switch u := t.Underlying().(type) {
	case *types.Basic:
		switch {
		case u.Info()&types.IsBoolean != 0:
			return x.C.BoolC(constant.BoolVal(k.Value))
		case u.Info()&types.IsInteger != 0:
			w, signed := x.intWidth(t)
			if signed {
				return x.C.IntC(w, k.Int64())
			}
			return x.C.BVC(w, k.Uint64())
		case u.Info()&types.IsFloat != 0:
			return x.C.FC(k.Float64())
		case u.Info()&types.IsString != 0:
			return Str{S: constant.StringVal(k.Value)}
		}
	}
	panic(x.unsupported("const of type %v", t))
}

func (x *Exec) global(g *ssa.Global) *Cell {
	if c, ok := x.globals[g]; ok {
		return c
	}
	if g.Pkg != nil && !x.initDone[g.Pkg] && x.lazyInit(g.Pkg) {
		x.initPackage(g.Pkg)
		if c, ok := x.globals[g]; ok {
			return c
		}
	}
	c := x.newCell(g.Type().(*types.Pointer).Elem())
	x.globals[g] = c
	return c
}

var lazyInitPkgs = map[string]bool{
	"io": true, "errors": true, "encoding/binary": true, "encoding/hex": true, "strconv": true, "math": true,
	"bytes": true, "strings": true, "sort": true, "container/heap": true,
	"unicode/utf8": true, "io/fs": true,
}

func (x *Exec) lazyInit(p *ssa.Package) bool {
	path := p.Pkg.Path()
	if lazyInitPkgs[path] {
		return true
	}
	// non-standard-library packages (module paths contain a dot) are
	// initialised on first access to one of their globals
	first := path
	if i := strings.Index(path, "/"); i >= 0 {
		first = path[:i]
	}
	if strings.Contains(first, ".") {
		return true
	}
	for _, ip := range x.Opt.InitPkgs {
		if ip == p {
			return true
		}
	}
	return false
}

// initPackage runs p's initializer (without recursing into imports, which
// are initialised lazily on first global access).
func (x *Exec) initPackage(p *ssa.Package) {
	if x.initDone[p] {
		return
	}
	x.initDone[p] = true
	// allocate all globals first
	for _, m := range p.Members {
		if g, ok := m.(*ssa.Global); ok {
			if _, ok := x.globals[g]; !ok {
				x.globals[g] = x.newCell(g.Type().(*types.Pointer).Elem())
			}
		}
	}
	init := p.Func("init")
	if init == nil || init.Blocks == nil {
		return
	}
	x.call(init, nil, nil)
}

// call invokes fn (function, closure or builtin) with args.
func (x *Exec) call(fnv Value, args []Value, site ssa.CallInstruction) Value {
	switch fn := fnv.(type) {
	case *ssa.Function:
		if fn == nil {
			x.rtPanic("call of nil function")
		}
		return x.callSSA(fn, args, nil, site)
	case *Closure:
		if fn == nil {
			x.rtPanic("call of nil function")
		}
		return x.callSSA(fn.Fn, args, fn.Env, site)
	case *ssa.Builtin:
		return x.callBuiltin(fn, args, site)
	case *nativeFn:
		return fn.f(x, args)
	}
	panic(x.unsupported("call of %T", fnv))
}

// nativeFn is an engine-provided function value (e.g. a modelled method).
type nativeFn struct {
	name string
	f    func(x *Exec, args []Value) Value
}

func (x *Exec) callSSA(fn *ssa.Function, args []Value, env []Value, site ssa.CallInstruction) Value {
	if x.Opt.Merge != nil && x.Opt.Merge[fn.String()] {
		if v, ok := x.callMerged(fn, args, env, site); ok {
			return v
		}
	}
	return x.callSSANoMerge(fn, args, env, site)
}

func (x *Exec) callSSANoMerge(fn *ssa.Function, args []Value, env []Value, site ssa.CallInstruction) Value {
	name := fn.String()
	if fn.Synthetic != "" && fn.Name() == "init" && len(x.stack) > 0 && x.stack[len(x.stack)-1].fn.Name() == "init" {
		// nested package initializer: imports are initialised lazily
		return nil
	}
	if x.Intrinsics == nil {
		x.Intrinsics = map[string]bool{}
	}
	if h, ok := harnessIntrinsics[fn.Name()]; ok && x.isRT(fn) {
		return h(x, fn, args)
	}
	if in, ok := intrinsics[name]; ok {
		x.Intrinsics[name] = true
		return in(x, fn, args)
	}
	if origin := fn.Origin(); origin != nil {
		if in, ok := intrinsics[origin.String()]; ok {
			x.Intrinsics[origin.String()] = true
			return in(x, fn, args)
		}
	}
	if strings.HasPrefix(fn.Name(), "vMemo") && len(args) == 1 {
		// harness helper declared pure and read-only in its result (parsing of a
		// concrete source text): executed once per worker, result shared by
		// later paths
		if s, ok := args[0].(Str); ok && s.Concrete() {
			key := name + "\x00" + s.S
			if x.memo == nil {
				x.memo = map[string]Value{}
			}
			if v, ok := x.memo[key]; ok {
				return v
			}
			defer func() {
				if fr := recover(); fr != nil {
					panic(fr)
				}
			}()
			v := x.runBody(fn, args, env, name)
			x.memo[key] = v
			return v
		}
	}
	return x.runBody(fn, args, env, name)
}

func (x *Exec) runBody(fn *ssa.Function, args []Value, env []Value, name string) Value {
	if fn.Blocks == nil {
		panic(x.unsupported("no body for %s", name))
	}
	if len(x.stack) > 400 {
		panic(x.unsupported("stack overflow in %s", name))
	}
	if x.Funcs == nil {
		x.Funcs = map[string]bool{}
	}
	x.Funcs[name] = true
	fr := &frame{fn: fn, env: make(map[ssa.Value]Value, 16), block: fn.Blocks[0]}
	if len(x.stack) > 0 {
		fr.caller = x.stack[len(x.stack)-1]
	}
	for i, p := range fn.Params {
		fr.env[p] = args[i]
	}
	for i, fv := range fn.FreeVars {
		fr.env[fv] = env[i]
	}
	x.stack = append(x.stack, fr)
	n := len(x.stack)
	for fr.block != nil {
		x.runFrame(fr)
	}
	x.stack = x.stack[:n-1]
	return fr.result
}

func (x *Exec) runFrame(fr *frame) {
	n := len(x.stack)
	defer func() {
		if fr.block == nil {
			return // normal return
		}
		r := recover()
		switch r.(type) {
		case *targetPanic:
		default:
			panic(r) // pathEnd, engineError, Go runtime errors of the engine itself
		}
		x.stack = x.stack[:n]
		fr.panicking = true
		fr.panicV = r
		x.runDefers(fr)
		fr.block = fr.fn.Recover
		if fr.block == nil {
			// recovered without named results: return zero values
			fr.result = x.zeroResults(fr.fn)
		}
	}()
	for {
		for _, instr := range fr.block.Instrs {
			if fr.skipPhis {
				if _, isPhi := instr.(*ssa.Phi); !isPhi {
					fr.skipPhis = false
				}
			}
			x.steps++
			if x.Opt.MaxSteps > 0 && x.steps > x.Opt.MaxSteps {
				x.unwindFailure(fmt.Sprintf("step budget %d exhausted in %s", x.Opt.MaxSteps, fr.fn))
			}
			switch x.visit(fr, instr) {
			case kReturn:
				fr.block = nil
				return
			case kJump:
				goto next
			}
		}
		panic(x.unsupported("block fell through in %s", fr.fn))
	next:
	}
}

func (x *Exec) zeroResults(fn *ssa.Function) Value {
	res := fn.Signature.Results()
	switch res.Len() {
	case 0:
		return nil
	case 1:
		return x.zero(res.At(0).Type())
	}
	return x.zero(res)
}

func (x *Exec) runDefers(fr *frame) {
	for len(fr.defers) > 0 {
		d := fr.defers[len(fr.defers)-1]
		fr.defers = fr.defers[:len(fr.defers)-1]
		func() {
			defer func() {
				if r := recover(); r != nil {
					if tp, ok := r.(*targetPanic); ok {
						// a new panic replaces the old one
						fr.panicking = true
						fr.panicV = tp
						return
					}
					panic(r)
				}
			}()
			x.call(d.fn, d.args, d.inst)
		}()
	}
	if fr.panicking {
		panic(fr.panicV)
	}
}

type cont int

const (
	kNext cont = iota
	kReturn
	kJump
)

func (x *Exec) visit(fr *frame, instr ssa.Instruction) cont {
	switch in := instr.(type) {
	case *ssa.DebugRef:
	case *ssa.UnOp:
		fr.env[in] = x.unop(fr, in)
	case *ssa.BinOp:
		fr.env[in] = x.binop(in.Op, in.X.Type(), x.get(fr, in.X), x.get(fr, in.Y), in.Y.Type())
	case *ssa.Call:
		fn, args := x.prepareCall(fr, &in.Call)
		fr.env[in] = x.call(fn, args, in)
	case *ssa.ChangeInterface:
		fr.env[in] = x.get(fr, in.X)
	case *ssa.ChangeType:
		fr.env[in] = x.get(fr, in.X)
	case *ssa.Convert:
		fr.env[in] = x.convert(in.X.Type(), in.Type(), x.get(fr, in.X))
	case *ssa.SliceToArrayPointer:
		s := x.get(fr, in.X).(SliceV)
		n := int(in.Type().(*types.Pointer).Elem().Underlying().(*types.Array).Len())
		if s.Len < n {
			x.rtPanic("cannot convert slice to array pointer: length too short")
		}
		if s.Arr == nil {
			fr.env[in] = (*Cell)(nil)
		} else {
			arr := &Cell{T: in.Type().(*types.Pointer).Elem(), Sub: s.Arr.Sub[s.Off : s.Off+n]}
			x.ncell++
			arr.ID = x.ncell
			fr.env[in] = arr
		}
	case *ssa.MakeInterface:
		fr.env[in] = IfaceV{T: in.X.Type(), V: x.get(fr, in.X)}
	case *ssa.Extract:
		fr.env[in] = x.get(fr, in.Tuple).(Tuple)[in.Index]
	case *ssa.Slice:
		fr.env[in] = x.slice(fr, in)
	case *ssa.Return:
		switch len(in.Results) {
		case 0:
		case 1:
			fr.result = x.get(fr, in.Results[0])
		default:
			t := make(Tuple, len(in.Results))
			for i, r := range in.Results {
				t[i] = x.get(fr, r)
			}
			fr.result = t
		}
		return kReturn
	case *ssa.RunDefers:
		x.runDefers(fr)
	case *ssa.Panic:
		v := x.get(fr, in.X)
		panic(&targetPanic{v: v})
	case *ssa.Send:
		x.chanSend(x.get(fr, in.Chan).(*ChanV), x.get(fr, in.X))
	case *ssa.Store:
		addr := x.get(fr, in.Addr).(*Cell)
		if addr == nil {
			x.rtPanic("invalid memory address or nil pointer dereference")
		}
		x.store(addr, x.get(fr, in.Val))
	case *ssa.If:
		cond := x.get(fr, in.Cond).(*smt.Term)
		var taken bool
		if cond.IsConst() {
			taken = cond.U == 1
		} else {
			if fr.backedges == nil {
				fr.backedges = map[*ssa.BasicBlock]int{}
			}
			if x.Opt.IfConv && x.tryIfConv(fr, in, cond) {
				return kJump
			}
			fr.backedges[fr.block]++
			if x.Opt.MaxUnwind > 0 && fr.backedges[fr.block] > x.Opt.MaxUnwind {
				x.unwindFailure(fmt.Sprintf("symbolic branch in %s block %d taken more than %d times", fr.fn, fr.block.Index, x.Opt.MaxUnwind))
			}
			x.branchRepeat = fr.backedges[fr.block]
			taken = x.Branch(cond)
			x.branchRepeat = 0
		}
		fr.prev = fr.block
		if taken {
			fr.block = fr.block.Succs[0]
		} else {
			fr.block = fr.block.Succs[1]
		}
		return kJump
	case *ssa.Jump:
		fr.prev = fr.block
		fr.block = fr.block.Succs[0]
		return kJump
	case *ssa.Defer:
		fn, args := x.prepareCall(fr, &in.Call)
		fr.defers = append(fr.defers, deferred{fn: fn, args: args, inst: in})
	case *ssa.Go:
		fn, args := x.prepareCall(fr, &in.Call)
		x.spawn(fn, args)
	case *ssa.MakeChan:
		fr.env[in] = x.makeChan(in.Type(), x.get(fr, in.Size))
	case *ssa.Alloc:
		t := in.Type().(*types.Pointer).Elem()
		c := x.newCell(t)
		if in.Heap {
			x.meterAlloc(t, 1)
		}
		fr.env[in] = c
	case *ssa.MakeSlice:
		et := in.Type().Underlying().(*types.Slice).Elem()
		lt := x.get(fr, in.Len).(*smt.Term)
		ct := x.get(fr, in.Cap).(*smt.Term)
		n := x.concreteLen(lt, in.Len.Type(), et, "make len")
		cp := n
		if in.Cap != in.Len {
			cp = x.concreteLen(ct, in.Cap.Type(), et, "make cap")
		}
		if cp < n {
			x.rtPanic("makeslice: cap out of range")
		}
		arr := x.newArray(et, cp)
		fr.env[in] = SliceV{Arr: arr, Off: 0, Len: n, Cap: cp}
	case *ssa.MakeMap:
		mt := in.Type().Underlying().(*types.Map)
		fr.env[in] = x.newMap(mt.Key(), mt.Elem())
	case *ssa.Range:
		fr.env[in] = x.rangeInit(x.get(fr, in.X))
	case *ssa.Next:
		fr.env[in] = x.rangeNext(fr.env[in.Iter].(*rangeIter), in)
	case *ssa.FieldAddr:
		p := x.get(fr, in.X).(*Cell)
		if p == nil {
			x.rtPanic("invalid memory address or nil pointer dereference")
		}
		fr.env[in] = p.Sub[in.Field]
	case *ssa.Field:
		fr.env[in] = x.get(fr, in.X).(*StructV).F[in.Field]
	case *ssa.IndexAddr:
		fr.env[in] = x.indexAddr(fr, in)
	case *ssa.Index:
		fr.env[in] = x.index(fr, in)
	case *ssa.Lookup:
		fr.env[in] = x.lookup(fr, in)
	case *ssa.MapUpdate:
		if x.spec > 0 {
			panic(specAbort{"map update inside a speculated block"})
		}
		m := x.get(fr, in.Map).(*MapV)
		if m == nil {
			x.rtPanic("assignment to entry in nil map")
		}
		k := x.concreteKey(x.get(fr, in.Key))
		m.set(x.keyOf(k), k, x.get(fr, in.Value))
	case *ssa.TypeAssert:
		fr.env[in] = x.typeAssert(in, x.get(fr, in.X))
	case *ssa.MakeClosure:
		var env []Value
		for _, b := range in.Bindings {
			env = append(env, x.get(fr, b))
		}
		fr.env[in] = &Closure{Fn: in.Fn.(*ssa.Function), Env: env}
	case *ssa.Phi:
		if fr.skipPhis {
			break
		}
		for i, pred := range in.Block().Preds {
			if fr.prev == pred {
				fr.env[in] = x.get(fr, in.Edges[i])
				break
			}
		}
	case *ssa.Select:
		fr.env[in] = x.selectStmt(fr, in)
	default:
		panic(x.unsupported("instruction %T (%s)", instr, instr))
	}
	return kNext
}

// concreteLen turns a length operand into a concrete int, case-splitting a
// symbolic one over its feasible values.
func (x *Exec) concreteLen(t *smt.Term, typ types.Type, elem types.Type, what string) int {
	w, signed := x.intWidth(typ)
	_ = w
	if !t.IsConst() {
		// A symbolic allocation size: every feasible value up to the split
		// bound is explored; beyond it one representative (the largest range
		// the solver finds feasible) is executed and checked against the
		// allocation limit.
		maxSplit := x.Opt.MaxSplit
		if maxSplit <= 0 {
			maxSplit = x.Opt.MaxUnwind
		}
		if maxSplit <= 0 {
			maxSplit = 8
		}
		big := x.C.ULt(x.C.BVC(t.Sort.W, uint64(maxSplit)), t)
		if signed {
			big = x.C.And(x.C.SLe(x.C.BVC(t.Sort.W, 0), t), big)
		}
		if x.Branch(big) {
			var m smt.Model
			for _, th := range []uint64{1 << 28, 1 << 20, 1 << 12, uint64(maxSplit) + 1} {
				c := x.C.ULe(x.C.BVC(t.Sort.W, th), t)
				if x.query(c) == smt.Sat {
					x.pc = append(x.pc, c)
					m = x.fullModel()
					x.pc = x.pc[:len(x.pc)-1]
					break
				}
			}
			if m == nil {
				panic(pathEnd{"infeasible"})
			}
			v := x.C.Eval(t, m)
			es := x.sizeof(elem)
			x.note("symbolic counts above the split bound are explored through one representative value")
			if x.Opt.AllocLimit != nil {
				lim := x.Opt.AllocLimit(x.inputLen)
				if int64(v)*es+x.allocB > lim || int64(v) < 0 {
					x.assume(x.C.Eq(t, x.C.BVC(t.Sort.W, v)))
					f := &Finding{Kind: "alloc", Label: "alloc-bound", Harness: x.harness, Model: m, Tape: x.tape(m), Path: append([]int{}, x.sc.trace...),
						Msg: fmt.Sprintf("%s of %d elements x %d bytes requested for a %d-byte input (limit %d)", what, v, es, x.inputLen, lim)}
					x.findings = append(x.findings, f)
					panic(pathEnd{"alloc-bound"})
				}
			}
			x.assume(x.C.Eq(t, x.C.BVC(t.Sort.W, v)))
			t = x.C.BVC(t.Sort.W, v)
		} else {
			v := x.Concretize(t, maxSplit+1, what)
			t = x.C.BVC(t.Sort.W, v)
		}
	}
	var n int64
	if signed {
		n = t.Int()
	} else {
		n = int64(t.U)
		if t.U > math.MaxInt64/2 {
			x.rtPanic("makeslice: len out of range")
		}
	}
	if n < 0 {
		x.rtPanic("makeslice: len out of range")
	}
	if n > 1<<22 {
		// far beyond anything a harness input of a few dozen bytes justifies
		f := &Finding{Kind: "alloc", Label: "huge-allocation", Harness: x.harness, Path: append([]int{}, x.sc.trace...),
			Msg: fmt.Sprintf("%s of %d elements x %d bytes", what, n, x.sizeof(elem))}
		if x.query() == smt.Sat {
			f.Model = x.fullModel()
			f.Tape = x.tape(f.Model)
		}
		x.findings = append(x.findings, f)
		panic(pathEnd{"huge-allocation"})
	}
	return int(n)
}

func (x *Exec) sizeof(t types.Type) int64 {
	switch u := t.Underlying().(type) {
	case *types.Basic:
		switch u.Kind() {
		case types.Bool, types.Int8, types.Uint8:
			return 1
		case types.Int16, types.Uint16:
			return 2
		case types.Int32, types.Uint32, types.Float32:
			return 4
		case types.String:
			return 16
		}
		return 8
	case *types.Struct:
		var s int64
		for i := 0; i < u.NumFields(); i++ {
			s += x.sizeof(u.Field(i).Type())
		}
		return s
	case *types.Array:
		return u.Len() * x.sizeof(u.Elem())
	case *types.Slice:
		return 24
	case *types.Interface:
		return 16
	}
	return 8
}

func (x *Exec) meterAlloc(elem types.Type, n int) {
	if x.Opt.AllocLimit == nil {
		return
	}
	x.allocB += int64(n) * x.sizeof(elem)
}

func (x *Exec) prepareCall(fr *frame, call *ssa.CallCommon) (Value, []Value) {
	var args []Value
	var fn Value
	if call.Method == nil {
		fn = x.get(fr, call.Value)
	} else {
		recv := x.get(fr, call.Value).(IfaceV)
		if recv.T == nil {
			x.rtPanic("invalid memory address or nil pointer dereference (method call on nil interface)")
		}
		if nf := x.modelMethod(recv, call.Method); nf != nil {
			fn = nf
		} else {
			m := x.Prog.LookupMethod(recv.T, call.Method.Pkg(), call.Method.Name())
			if m == nil {
				panic(x.unsupported("method %s not found on %v", call.Method.Name(), recv.T))
			}
			fn = m
		}
		args = append(args, recv.V)
	}
	for _, a := range call.Args {
		args = append(args, x.get(fr, a))
	}
	return fn, args
}

func (x *Exec) typeAssert(in *ssa.TypeAssert, v Value) Value {
	iv := v.(IfaceV)
	ok := false
	var res Value
	if it, isIface := in.AssertedType.Underlying().(*types.Interface); isIface {
		if iv.T != nil && types.Implements(iv.T, it) {
			ok = true
			res = iv
		} else if iv.T != nil && !types.Implements(iv.T, it) {
			// pointer receiver method sets are handled by Implements on the dynamic type itself
			ok = false
		}
	} else {
		if iv.T != nil && types.Identical(iv.T, in.AssertedType) {
			ok = true
			res = iv.V
		}
	}
	if in.CommaOk {
		if !ok {
			res = x.zero(in.AssertedType)
		}
		return Tuple{res, x.C.BoolC(ok)}
	}
	if !ok {
		msg := fmt.Sprintf("interface conversion: interface is %v, not %v", iv.T, in.AssertedType)
		if iv.T == nil {
			msg = fmt.Sprintf("interface conversion: interface is nil, not %v", in.AssertedType)
		}
		x.rtPanic(msg)
	}
	return res
}

func (x *Exec) slice(fr *frame, in *ssa.Slice) Value {
	c := x.C
	v := x.get(fr, in.X)
	lohi := func(val ssa.Value, def int) int {
		if val == nil {
			return def
		}
		t := x.get(fr, val).(*smt.Term)
		if !t.IsConst() {
			return int(sextTo64(x.Concretize(t, 64, "slice bound"), t.Sort.W))
		}
		return int(t.Int())
	}
	_ = c
	switch s := v.(type) {
	case Str:
		lo := lohi(in.Low, 0)
		hi := lohi(in.High, s.Len())
		if lo < 0 || hi < lo || hi > s.Len() {
			x.rtPanic(fmt.Sprintf("slice bounds out of range [%d:%d] with length %d", lo, hi, s.Len()))
		}
		if s.B != nil {
			return x.mkStr(s.B[lo:hi])
		}
		return Str{S: s.S[lo:hi]}
	case SliceV:
		lo := lohi(in.Low, 0)
		hi := lohi(in.High, s.Len)
		mx := lohi(in.Max, s.Cap)
		if lo < 0 || hi < lo || mx < hi || mx > s.Cap {
			x.rtPanic(fmt.Sprintf("slice bounds out of range [%d:%d:%d] with capacity %d", lo, hi, mx, s.Cap))
		}
		if s.Arr == nil {
			return SliceV{}
		}
		return SliceV{Arr: s.Arr, Off: s.Off + lo, Len: hi - lo, Cap: mx - lo}
	case *Cell: // pointer to array
		if s == nil {
			x.rtPanic("slice of nil array pointer")
		}
		n := len(s.Sub)
		lo := lohi(in.Low, 0)
		hi := lohi(in.High, n)
		mx := lohi(in.Max, n)
		if lo < 0 || hi < lo || mx < hi || mx > n {
			x.rtPanic(fmt.Sprintf("slice bounds out of range [%d:%d:%d] with capacity %d", lo, hi, mx, n))
		}
		return SliceV{Arr: s, Off: lo, Len: hi - lo, Cap: mx - lo}
	}
	panic(x.unsupported("slice of %T", v))
}

func sextTo64(u uint64, w int) int64 {
	if w >= 64 {
		return int64(u)
	}
	if u&(1<<uint(w-1)) != 0 {
		return int64(u | ^((uint64(1) << uint(w)) - 1))
	}
	return int64(u)
}

// concreteIndex resolves an index term against length n, forking on the
// bounds check; a feasible out-of-range index is a panic path.
func (x *Exec) concreteIndex(t *smt.Term, n int, what string) int {
	if t.IsConst() {
		i := t.Int()
		if i < 0 || i >= int64(n) {
			x.rtPanic(fmt.Sprintf("index out of range [%d] with length %d", i, n))
		}
		return int(i)
	}
	w := t.Sort.W
	inb := x.C.ULt(t, x.C.BVC(w, uint64(n)))
	if !x.Branch(inb) {
		x.rtPanic(fmt.Sprintf("index out of range [symbolic] with length %d (%s)", n, what))
	}
	return int(x.Concretize(t, n, what))
}

// idx64 widens an index operand to 64 bits according to its Go type.
func (x *Exec) idx64(t *smt.Term, typ types.Type) *smt.Term {
	if t.Sort.W == 64 {
		return t
	}
	_, signed := x.intWidth(typ)
	if signed {
		return x.C.SExt(t, 64)
	}
	return x.C.ZExt(t, 64)
}

func (x *Exec) indexAddr(fr *frame, in *ssa.IndexAddr) Value {
	base := x.get(fr, in.X)
	it := x.idx64(x.get(fr, in.Index).(*smt.Term), in.Index.Type())
	switch b := base.(type) {
	case SliceV:
		i := x.concreteIndex(it, b.Len, "slice index")
		return b.Arr.Sub[b.Off+i]
	case *Cell:
		if b == nil {
			x.rtPanic("invalid memory address or nil pointer dereference")
		}
		i := x.concreteIndex(it, len(b.Sub), "array index")
		return b.Sub[i]
	}
	panic(x.unsupported("indexaddr of %T", base))
}

func (x *Exec) index(fr *frame, in *ssa.Index) Value {
	base := x.get(fr, in.X)
	it := x.idx64(x.get(fr, in.Index).(*smt.Term), in.Index.Type())
	switch b := base.(type) {
	case *ArrayV:
		if !it.IsConst() && len(b.E) > 0 {
			if _, ok := b.E[0].(*smt.Term); ok {
				return x.selectTerm(it, b.E, "array index")
			}
		}
		i := x.concreteIndex(it, len(b.E), "array index")
		return b.E[i]
	case Str:
		if it.IsConst() && b.Concrete() {
			i := x.concreteIndex(it, len(b.S), "string index")
			return x.C.BVC(8, uint64(b.S[i]))
		}
		bs := x.strBytes(b)
		if !it.IsConst() {
			vals := make([]Value, len(bs))
			for i := range bs {
				vals[i] = bs[i]
			}
			return x.selectTerm(it, vals, "string index")
		}
		i := x.concreteIndex(it, len(bs), "string index")
		return bs[i]
	}
	panic(x.unsupported("index of %T", base))
}

// selectTerm reads vals[idx] for symbolic idx as an ite chain, after the
// bounds check.
func (x *Exec) selectTerm(idx *smt.Term, vals []Value, what string) Value {
	n := len(vals)
	w := idx.Sort.W
	inb := x.C.ULt(idx, x.C.BVC(w, uint64(n)))
	if !x.Branch(inb) {
		x.rtPanic(fmt.Sprintf("index out of range [symbolic] with length %d (%s)", n, what))
	}
	allConst := true
	tab := make([]*smt.Term, n)
	for i, v := range vals {
		tab[i] = v.(*smt.Term)
		if !tab[i].IsConst() {
			allConst = false
		}
	}
	if allConst {
		return x.C.SelectConst(idx, tab)
	}
	r := vals[n-1].(*smt.Term)
	for i := n - 2; i >= 0; i-- {
		r = x.C.Ite(x.C.Eq(idx, x.C.BVC(w, uint64(i))), vals[i].(*smt.Term), r)
	}
	return r
}

// concreteKey forces a map key to be concrete, splitting on feasible values.
func (x *Exec) concreteKey(k Value) Value {
	switch kv := k.(type) {
	case *smt.Term:
		if !kv.IsConst() {
			if kv.Sort.K == smt.KF64 {
				panic(x.unsupported("symbolic float map key"))
			}
			if kv.Sort.K == smt.KBool {
				return x.C.BoolC(x.Branch(kv))
			}
			return x.C.BVC(kv.Sort.W, x.Concretize(kv, 16, "map key"))
		}
	case *StructV:
		out := &StructV{F: make([]Value, len(kv.F))}
		for i, f := range kv.F {
			out.F[i] = x.concreteKey(f)
		}
		return out
	case IfaceV:
		if kv.T != nil {
			return IfaceV{T: kv.T, V: x.concreteKey(kv.V)}
		}
	}
	return k
}

func (x *Exec) lookup(fr *frame, in *ssa.Lookup) Value {
	base := x.get(fr, in.X)
	switch b := base.(type) {
	case *MapV:
		key := x.get(fr, in.Index)
		var v Value
		var ok bool
		if kt, isT := key.(*smt.Term); isT && !kt.IsConst() && kt.Sort.K == smt.KBV {
			// symbolic key: split over the keys present, plus "absent"
			v, ok = x.symbolicLookup(b, kt)
		} else {
			key = x.concreteKey(key)
			v, ok = b.lookup(x.keyOf(key))
		}
		if !ok {
			v = x.zero(in.X.Type().Underlying().(*types.Map).Elem())
		}
		if in.CommaOk {
			return Tuple{v, x.C.BoolC(ok)}
		}
		return v
	case Str:
		it := x.idx64(x.get(fr, in.Index).(*smt.Term), in.Index.Type())
		bs := x.strBytes(b)
		i := x.concreteIndex(it, len(bs), "string index")
		return bs[i]
	}
	panic(x.unsupported("lookup in %T", base))
}

func (x *Exec) symbolicLookup(m *MapV, k *smt.Term) (Value, bool) {
	live := m.live()
	var absent []*smt.Term
	for _, i := range live {
		kc := m.Keys[i].(*smt.Term)
		absent = append(absent, x.C.Not(x.C.Eq(k, kc)))
	}
	for _, i := range live {
		kc := m.Keys[i].(*smt.Term)
		if x.Branch(x.C.Eq(k, kc)) {
			return m.Vals[i], true
		}
	}
	return nil, false
}

func (x *Exec) rangeInit(v Value) Value {
	switch v := v.(type) {
	case *MapV:
		it := &rangeIter{m: v, order: v.live()}
		// iteration order is unspecified: fork over rotations/permutations
		// only when asked (C18); default is insertion order, recorded as an assumption
		if x.Opt.MapOrders && len(it.order) > 1 && len(it.order) <= 3 {
			it.order = x.permute(it.order)
		} else if len(it.order) > 1 {
			x.note("map iteration explored in insertion order only")
		}
		return it
	case Str:
		return &rangeIter{s: v}
	}
	panic(x.unsupported("range over %T", v))
}

func (x *Exec) permute(order []int) []int {
	perms := permutations(len(order))
	p := perms[x.Choose(len(perms))]
	out := make([]int, len(order))
	for i, j := range p {
		out[i] = order[j]
	}
	return out
}

func permutations(n int) [][]int {
	if n == 0 {
		return [][]int{{}}
	}
	var out [][]int
	for _, p := range permutations(n - 1) {
		for i := 0; i <= len(p); i++ {
			q := append(append(append([]int{}, p[:i]...), n-1), p[i:]...)
			out = append(out, q)
		}
	}
	return out
}

func (x *Exec) rangeNext(it *rangeIter, in *ssa.Next) Value {
	if in.IsString {
		s, ok := x.concreteStr(it.s)
		if !ok {
			panic(x.unsupported("range over symbolic string"))
		}
		if it.pos >= len(s) {
			return Tuple{x.C.False(), x.C.IntC(64, 0), x.C.IntC(32, 0)}
		}
		for i, r := range s[it.pos:] {
			_ = i
			pos := it.pos
			it.pos += len(string(r))
			return Tuple{x.C.True(), x.C.IntC(64, int64(pos)), x.C.IntC(32, int64(r))}
		}
	}
	for it.pos < len(it.order) {
		i := it.order[it.pos]
		it.pos++
		if it.m.dead[i] {
			continue
		}
		return Tuple{x.C.True(), it.m.Keys[i], it.m.Vals[i]}
	}
	tt := in.Type().(*types.Tuple)
	var kz, vz Value
	if _, inv := tt.At(1).Type().(*types.Basic); !inv || tt.At(1).Type().(*types.Basic).Kind() != types.Invalid {
		kz = x.zero(tt.At(1).Type())
	}
	if b, isb := tt.At(2).Type().(*types.Basic); !isb || b.Kind() != types.Invalid {
		vz = x.zero(tt.At(2).Type())
	}
	return Tuple{x.C.False(), kz, vz}
}

var _ = token.ADD
