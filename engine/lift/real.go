package lift

import (
	"fmt"
	"math"
	"math/big"

	"gosmt/smt"
)

// R is float mode R of DESIGN.md 3.4: floats as reals, operations exact.
// Valid for clauses that are stated with a tolerance; branch conditions of
// the code under test are decided as exact real comparisons (an assumption
// recorded in evidence). A sat answer is only a candidate until it replays
// natively.
type R struct {
	c     *smt.Ctx
	memoF map[int]*smt.Term
	memoB map[int]*smt.Term
	ints  map[string]*smt.Term // grid variable name -> its integer twin
	extra []*smt.Term
	width map[string]int
}

func NewR(c *smt.Ctx) *R {
	return &R{c: c, memoF: map[int]*smt.Term{}, memoB: map[int]*smt.Term{}, ints: map[string]*smt.Term{}, width: map[string]int{}}
}

func (r *R) TakeAmbig() []*smt.Term { return nil }

// Extra returns the range constraints of the integer twins of grid variables.
func (r *R) Extra() []*smt.Term { return r.extra }

// FixModel copies the values of the integer twins back to the bit-vector
// grid variables the harness inputs are made of.
func (r *R) FixModel(m smt.Model) {
	for name, iv := range r.ints {
		if v, ok := m[iv.Name]; ok {
			w := r.width[name]
			m[name] = v & ((uint64(1) << uint(w)) - 1)
		}
	}
}

// IntVars lists the integer twins (so that the executor asks for their values).
func (r *R) IntVars() []*smt.Term {
	var out []*smt.Term
	for _, v := range r.ints {
		out = append(out, v)
	}
	return out
}

func (r *R) Lift(t *smt.Term) (res *smt.Term, err error) {
	defer func() {
		if x := recover(); x != nil {
			if p, ok := x.(*Poison); ok {
				err = p
				return
			}
			panic(x)
		}
	}()
	return r.liftB(t), nil
}

func (r *R) fail(format string, a ...interface{}) { panic(&Poison{Why: fmt.Sprintf(format, a...)}) }

func (r *R) num(f float64) *smt.Term {
	if f != f || math.IsInf(f, 0) {
		r.fail("non-finite constant in real mode")
	}
	bf := new(big.Float).SetFloat64(f)
	rat, _ := bf.Rat(nil)
	s := fmt.Sprintf("(/ %s.0 %s.0)", new(big.Int).Abs(rat.Num()).String(), rat.Denom().String())
	if rat.Sign() < 0 {
		s = "(- " + s + ")"
	}
	return r.c.Native(s, smt.Real)
}

func (r *R) liftB(t *smt.Term) *smt.Term {
	if v, ok := r.memoB[t.ID]; ok {
		return v
	}
	c := r.c
	var v *smt.Term
	switch t.Op {
	case smt.OConst, smt.OVar:
		v = t
	case smt.ONot:
		v = c.Not(r.liftB(t.Args[0]))
	case smt.OAnd, smt.OOr:
		as := make([]*smt.Term, len(t.Args))
		for i, a := range t.Args {
			as[i] = r.liftB(a)
		}
		if t.Op == smt.OAnd {
			v = c.And(as...)
		} else {
			v = c.Or(as...)
		}
	case smt.OIte:
		v = c.Ite(r.liftB(t.Args[0]), r.liftB(t.Args[1]), r.liftB(t.Args[2]))
	case smt.OEq:
		if t.Args[0].Sort.K == smt.KBool {
			v = c.Eq(r.liftB(t.Args[0]), r.liftB(t.Args[1]))
		} else {
			v = t
		}
	case smt.OFLt:
		v = c.Native("<", smt.Bool, r.liftF(t.Args[0]), r.liftF(t.Args[1]))
	case smt.OFLe:
		v = c.Native("<=", smt.Bool, r.liftF(t.Args[0]), r.liftF(t.Args[1]))
	case smt.OFEq:
		v = c.Native("=", smt.Bool, r.liftF(t.Args[0]), r.liftF(t.Args[1]))
	case smt.OFIsNaN, smt.OFIsInf:
		v = c.False()
	case smt.OFIsNeg:
		v = c.Native("<", smt.Bool, r.liftF(t.Args[0]), r.num(0))
	default:
		// pure bit-vector / integer predicates pass through
		for _, a := range t.Args {
			if a.Sort.K == smt.KF64 {
				r.fail("bool op %v on floats", t.Op)
			}
		}
		v = t
	}
	r.memoB[t.ID] = v
	return v
}

func (r *R) liftF(t *smt.Term) *smt.Term {
	if v, ok := r.memoF[t.ID]; ok {
		return v
	}
	c := r.c
	bin := func(op string) *smt.Term {
		return c.Native(op, smt.Real, r.liftF(t.Args[0]), r.liftF(t.Args[1]))
	}
	var v *smt.Term
	switch t.Op {
	case smt.OConst:
		v = r.num(t.Float())
	case smt.OFGrid:
		k := t.Args[0]
		w := k.Sort.W
		var si *smt.Term
		if k.Op == smt.OVar {
			// an integer twin of the grid variable keeps the query in pure
			// (nonlinear) real/integer arithmetic
			iv, ok := r.ints[k.Name]
			if !ok {
				// a real twin: the identities claimed hold over the reals, so the
				// integrality of the grid is not needed (a model is rounded back)
				iv = c.Var(k.Name+"_real", smt.Real)
				r.ints[k.Name] = iv
				r.width[k.Name] = w
				r.extra = append(r.extra,
					c.Native("<=", smt.Bool, r.num(-float64(int64(1)<<uint(w-1))), iv),
					c.Native("<=", smt.Bool, iv, r.num(float64(int64(1)<<uint(w-1)-1))))
			}
			v = iv
			if t.I != 0 {
				v = c.Native("/", smt.Real, v, r.num(math.Ldexp(1, t.I)))
			}
			r.memoF[t.ID] = v
			return v
		} else {
			neg := c.SLt(k, c.BVC(w, 0))
			nat := c.Native("bv2int", smt.Int, k)
			off := c.Native(fmt.Sprintf("%d", int64(1)<<uint(w)), smt.Int)
			zero := c.Native("0", smt.Int)
			si = c.Native("-", smt.Int, nat, c.Ite(neg, off, zero))
		}
		v = c.Native("to_real", smt.Real, si)
		if t.I != 0 {
			v = c.Native("/", smt.Real, v, r.num(math.Ldexp(1, t.I)))
		}
	case smt.OIte:
		v = c.Ite(r.liftB(t.Args[0]), r.liftF(t.Args[1]), r.liftF(t.Args[2]))
	case smt.OFAdd:
		v = bin("+")
	case smt.OFSub:
		v = bin("-")
	case smt.OFMul:
		v = bin("*")
	case smt.OFDiv:
		v = bin("/")
	case smt.OFNextUp:
		// the nudge is far below the grid spacing: a tiny positive rational
		v = c.Native("+", smt.Real, r.liftF(t.Args[0]), r.num(math.Ldexp(1, -60)))
	case smt.OFNextDown:
		v = c.Native("-", smt.Real, r.liftF(t.Args[0]), r.num(math.Ldexp(1, -60)))
	case smt.OFNeg:
		v = c.Native("-", smt.Real, r.liftF(t.Args[0]))
	case smt.OFAbs:
		a := r.liftF(t.Args[0])
		v = c.Ite(c.Native("<", smt.Bool, a, r.num(0)), c.Native("-", smt.Real, a), a)
	default:
		r.fail("float op %v in real mode", t.Op)
	}
	r.memoF[t.ID] = v
	return v
}
