package lift

import (
	"gosmt/smt"
)

// U is float mode U of DESIGN.md 3.4: every float operation and libm
// function is an uninterpreted function over 64-bit patterns. An unsat
// answer holds for every interpretation, hence for IEEE arithmetic and the
// real libm; a sat answer is only a candidate (replayed natively).
type U struct {
	c    *smt.Ctx
	memo map[int]*smt.Term
}

func NewU(c *smt.Ctx) *U { return &U{c: c, memo: map[int]*smt.Term{}} }

func (u *U) TakeAmbig() []*smt.Term { return nil }

func (u *U) Lift(t *smt.Term) (*smt.Term, error) { return u.lift(t), nil }

var bv64 = smt.BV(64)

func (u *U) lift(t *smt.Term) *smt.Term {
	if v, ok := u.memo[t.ID]; ok {
		return v
	}
	c := u.c
	as := make([]*smt.Term, len(t.Args))
	for i, a := range t.Args {
		as[i] = u.lift(a)
	}
	var v *smt.Term
	switch t.Op {
	case smt.OVar:
		v = t
	case smt.OConst:
		if t.Sort.K == smt.KF64 {
			v = c.BVC(64, t.U)
		} else {
			v = t
		}
	case smt.OFFromBits, smt.OFBits:
		v = as[0]
	case smt.OFGrid:
		v = c.UF("u.grid", bv64, c.SExt(as[0], 64), c.BVC(64, uint64(t.I)))
	case smt.OFMul, smt.OFDiv:
		// x*1 = 1*x = x/1 = x in IEEE arithmetic (up to the payload of a NaN)
		one := func(a *smt.Term) bool { return a.IsConst() && a.U == 0x3FF0000000000000 }
		switch {
		case one(as[1]):
			v = as[0]
		case t.Op == smt.OFMul && one(as[0]):
			v = as[1]
		default:
			v = c.UF("u."+t.Op.String(), bv64, widen(c, as)...)
		}
	case smt.OFAdd, smt.OFSub, smt.OFNeg, smt.OFAbs, smt.OFSqrt, smt.OFNextUp, smt.OFNextDown, smt.OFFromSInt, smt.OFFromUInt:
		v = c.UF("u."+t.Op.String(), bv64, widen(c, as)...)
	case smt.OFToSInt:
		v = c.UF("u.tosint", smt.BV(t.Sort.W), as...)
	case smt.OFLt, smt.OFLe, smt.OFEq, smt.OFIsNaN, smt.OFIsInf, smt.OFIsNeg:
		v = c.UF("u."+t.Op.String(), smt.Bool, as...)
	case smt.OUF:
		s := t.Sort
		if s.K == smt.KF64 {
			s = bv64
		}
		v = c.UF("u.libm."+t.Name, s, as...)
	case smt.OIte:
		v = c.Ite(as[0], as[1], as[2])
	default:
		v = c.Rebuild(t, as)
	}
	u.memo[t.ID] = v
	return v
}

func widen(c *smt.Ctx, as []*smt.Term) []*smt.Term {
	out := make([]*smt.Term, len(as))
	for i, a := range as {
		if a.Sort.K == smt.KBV && a.Sort.W < 64 {
			out[i] = c.SExt(a, 64)
		} else {
			out[i] = a
		}
	}
	return out
}
