// Package lift rewrites float terms into exact integer (bit-vector) terms on
// dyadic grids (float mode G of DESIGN.md 3.4).
package lift

import (
	"fmt"

	"gosmt/smt"
)

type G struct{ c *smt.Ctx }

func NewG(c *smt.Ctx) *G { return &G{c: c} }

func (g *G) Lift(t *smt.Term) (*smt.Term, error) { return nil, fmt.Errorf("G mode not built") }
