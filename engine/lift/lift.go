// Package lift rewrites float terms into exact integer (bit-vector) terms on
// dyadic grids (float mode G of DESIGN.md 3.4 and Appendix A).
//
// A float value is carried as k * 2^-s with k a signed bit-vector whose width
// is tracked, so +, -, * and comparisons are exact (the encoder refuses, as
// "poison", anything that would need more than 53 significant bits). Rounded
// operations are not approximated: a quotient or a square root may only be
// compared (exact by separation of distinct rationals / radicals on the
// grid), never used in further arithmetic.
package lift

import (
	"fmt"
	"math"
	"math/big"

	"gosmt/smt"
)

type kind int

const (
	kFin   kind = iota // k*2^-s (+ eps*ulp)
	kRQ                // rounded quotient n/d
	kRS                // rounded square root of r
	kFuzzy             // (k*2^-s) + e*delta, delta in [0, ulp], > 0 iff strict
)

type lv struct {
	kind kind
	// IEEE specials as symbolic flags (nil = false); when one is set the
	// numeric fields are irrelevant.
	nan, pinf, ninf *smt.Term
	k   *smt.Term // signed BV of width w
	w   int
	s   int
	eps int // kFin: +-1 after Nextafter, else 0

	strict *smt.Term // kFuzzy: delta is strictly positive
	e      int       // kFuzzy: sign of the infinitesimal part

	n, d *lv // kRQ
	r    *lv // kRS
	noArith bool // huge constant: comparisons only
	loose bool // kRS from Hypot: equal radicands need not give equal results
}

// Poison is returned when a term leaves the exact domain.
type Poison struct{ Why string }

func (p *Poison) Error() string { return "outside the exact grid domain: " + p.Why }

type G struct {
	c     *smt.Ctx
	memoF map[int]*lv
	memoB map[int]*smt.Term
	// Ambig collects conditions under which a comparison involving a nudged
	// (Nextafter) value is not determined by the exact rules.
	Ambig []*smt.Term
}

func NewG(c *smt.Ctx) *G {
	return &G{c: c, memoF: map[int]*lv{}, memoB: map[int]*smt.Term{}}
}

const maxExactWidth = 54 // signed width: 53 significant bits + sign

func poison(format string, a ...interface{}) error { return &Poison{Why: fmt.Sprintf(format, a...)} }

// Lift rewrites a Bool term over floats into a Bool term over bit-vectors.
func (g *G) Lift(t *smt.Term) (res *smt.Term, err error) {
	defer func() {
		if r := recover(); r != nil {
			if p, ok := r.(*Poison); ok {
				err = p
				return
			}
			panic(r)
		}
	}()
	return g.liftB(t), nil
}

func (g *G) fail(format string, a ...interface{}) { panic(&Poison{Why: fmt.Sprintf(format, a...)}) }

func isFloat(t *smt.Term) bool { return t.Sort.K == smt.KF64 }

func (g *G) liftB(t *smt.Term) *smt.Term {
	if r, ok := g.memoB[t.ID]; ok {
		return r
	}
	c := g.c
	var r *smt.Term
	switch t.Op {
	case smt.OConst, smt.OVar:
		r = t
	case smt.ONot:
		r = c.Not(g.liftB(t.Args[0]))
	case smt.OAnd, smt.OOr:
		as := make([]*smt.Term, len(t.Args))
		for i, a := range t.Args {
			as[i] = g.liftB(a)
		}
		if t.Op == smt.OAnd {
			r = c.And(as...)
		} else {
			r = c.Or(as...)
		}
	case smt.OIte:
		r = c.Ite(g.liftB(t.Args[0]), g.liftB(t.Args[1]), g.liftB(t.Args[2]))
	case smt.OEq:
		if t.Args[0].Sort.K == smt.KBool {
			r = c.Eq(g.liftB(t.Args[0]), g.liftB(t.Args[1]))
		} else {
			r = c.Eq(g.liftV(t.Args[0]), g.liftV(t.Args[1]))
		}
	case smt.OULt, smt.OULe, smt.OSLt, smt.OSLe:
		a, b := g.liftV(t.Args[0]), g.liftV(t.Args[1])
		switch t.Op {
		case smt.OULt:
			r = c.ULt(a, b)
		case smt.OULe:
			r = c.ULe(a, b)
		case smt.OSLt:
			r = c.SLt(a, b)
		default:
			r = c.SLe(a, b)
		}
	case smt.OILt, smt.OILe:
		r = t
	case smt.OFLt:
		r = g.cmp(g.liftF(t.Args[0]), g.liftF(t.Args[1]), "lt")
	case smt.OFLe:
		r = g.cmp(g.liftF(t.Args[0]), g.liftF(t.Args[1]), "le")
	case smt.OFEq:
		r = g.cmp(g.liftF(t.Args[0]), g.liftF(t.Args[1]), "eq")
	case smt.OFIsNaN:
		r = g.isNaN(g.liftF(t.Args[0]))
	case smt.OFIsInf:
		a := g.liftF(t.Args[0])
		r = c.Or(g.isPInf(a), g.isNInf(a))
	case smt.OFIsNeg:
		a := g.liftF(t.Args[0])
		r = g.cmp(a, g.constLV(0), "lt")
		r = c.Or(r, g.isNInf(a))
	default:
		g.fail("bool op %v", t.Op)
	}
	g.memoB[t.ID] = r
	return r
}

// liftV handles non-float, non-bool terms (bit-vectors) that may contain
// float subterms only through FBits/FToSInt, which are outside G.
func (g *G) liftV(t *smt.Term) *smt.Term {
	switch t.Op {
	case smt.OConst, smt.OVar:
		return t
	case smt.OIte:
		return g.c.Ite(g.liftB(t.Args[0]), g.liftV(t.Args[1]), g.liftV(t.Args[2]))
	case smt.OFBits, smt.OFToSInt:
		g.fail("bit pattern / integer conversion of a computed float")
	}
	hasF := false
	for _, a := range t.Args {
		if isFloat(a) {
			hasF = true
		}
	}
	if hasF {
		g.fail("bv op %v on float", t.Op)
	}
	// rebuild only if a child changes (children are bv/bool)
	changed := false
	as := make([]*smt.Term, len(t.Args))
	for i, a := range t.Args {
		if a.Sort.K == smt.KBool {
			as[i] = g.liftB(a)
		} else {
			as[i] = g.liftV(a)
		}
		if as[i] != a {
			changed = true
		}
	}
	if !changed {
		return t
	}
	return g.c.Rebuild(t, as)
}

func (g *G) constLV(f float64) *lv {
	c := g.c
	switch {
	case f != f:
		return &lv{kind: kFin, nan: c.True(), k: c.BVC(2, 0), w: 2}
	case math.IsInf(f, 1):
		return &lv{kind: kFin, pinf: c.True(), k: c.BVC(2, 0), w: 2}
	case math.IsInf(f, -1):
		return &lv{kind: kFin, ninf: c.True(), k: c.BVC(2, 0), w: 2}
	case f == 0:
		return &lv{kind: kFin, k: c.BVC(2, 0), w: 2}
	}
	m, e := math.Frexp(f) // f = m * 2^e, 0.5 <= |m| < 1
	mi := int64(m * (1 << 53))
	e -= 53
	for mi%2 == 0 {
		mi /= 2
		e++
	}
	// f = mi * 2^e
	s := 0
	if e < 0 {
		s = -e
	} else {
		if e > 40 {
			// a huge constant (math.MaxFloat64 as "infinity"): it may only be
			// compared with grid values, all of which are far smaller
			k := int64(1) << 62
			if f < 0 {
				k = -k
			}
			return &lv{kind: kFin, k: c.IntC(64, k), w: 64, noArith: true}
		}
		mi <<= uint(e)
	}
	if s > 60 {
		g.fail("constant %v is not a short dyadic", f)
	}
	w := big.NewInt(mi).BitLen() + 2
	return &lv{kind: kFin, k: c.IntC(w, mi), w: w, s: s}
}

func (g *G) liftF(t *smt.Term) *lv {
	if r, ok := g.memoF[t.ID]; ok {
		return r
	}
	c := g.c
	var r *lv
	switch t.Op {
	case smt.OConst:
		r = g.constLV(t.Float())
	case smt.OFGrid:
		k := t.Args[0]
		r = &lv{kind: kFin, k: c.SExt(k, k.Sort.W+1), w: k.Sort.W + 1, s: t.I}
	case smt.OIte:
		r = g.ite(g.liftB(t.Args[0]), g.liftF(t.Args[1]), g.liftF(t.Args[2]))
	case smt.OFNeg:
		a := g.liftF(t.Args[0])
		r = g.neg(a)
	case smt.OFAbs:
		a := g.liftF(t.Args[0])
		isneg := g.cmp(a, g.constLV(0), "lt")
		r = g.ite(c.Or(isneg, g.isNInf(a)), g.neg(a), a)
	case smt.OFAdd:
		r = g.add(g.liftF(t.Args[0]), g.liftF(t.Args[1]), false)
	case smt.OFSub:
		a, b := g.liftF(t.Args[0]), g.liftF(t.Args[1])
		if t.Args[0] == t.Args[1] && a.kind == kFin && !g.hasSpecial(a) && a.eps == 0 {
			// x - x = 0 for every finite x
			r = g.constLV(0)
			break
		}
		r = g.add(a, b, true)
	case smt.OFMul:
		r = g.mul(g.liftF(t.Args[0]), g.liftF(t.Args[1]))
	case smt.OFDiv:
		r = g.div(g.liftF(t.Args[0]), g.liftF(t.Args[1]))
	case smt.OFSqrt:
		a := g.liftF(t.Args[0])
		g.needPlainFin(a, "sqrt operand")
		r = &lv{kind: kRS, r: a}
	case smt.OFNextUp, smt.OFNextDown:
		a := g.liftF(t.Args[0])
		g.needPlainFin(a, "Nextafter operand")
		b := *a
		if t.Op == smt.OFNextDown {
			b.eps = a.eps - 1
		} else {
			b.eps = a.eps + 1
		}
		r = &b
	case smt.OUF:
		if t.Name == "hypot" {
			// Hypot(x, 0) = |x|, Hypot(0, y) = |y| exactly; otherwise sqrt(x^2+y^2)
			// is only comparable.
			x, y := g.liftF(t.Args[0]), g.liftF(t.Args[1])
			g.needPlainFin(x, "hypot operand")
			g.needPlainFin(y, "hypot operand")
			isZ := func(v *lv) bool { return v.k.IsConst() && v.k.U == 0 && v.eps == 0 }
			if isZ(y) || isZ(x) {
				o := x
				if isZ(x) {
					o = y
				}
				isneg := g.cmp(o, g.constLV(0), "lt")
				r = g.ite(isneg, g.neg(o), o)
				break
			}
			sq := g.add(g.mul(x, x), g.mul(y, y), false)
			r = &lv{kind: kRS, r: sq, loose: true}
			break
		}
		g.fail("libm function %s", t.Name)
	case smt.OFFromSInt:
		k := t.Args[0]
		if k.Sort.W > 32 {
			g.fail("int->float conversion of a wide integer")
		}
		r = &lv{kind: kFin, k: c.SExt(k, k.Sort.W+1), w: k.Sort.W + 1}
	default:
		g.fail("float op %v", t.Op)
	}
	g.memoF[t.ID] = r
	return r
}

func (g *G) hasSpecial(a *lv) bool { return a.nan != nil || a.pinf != nil || a.ninf != nil }

func (g *G) needPlainFin(a *lv, what string) {
	if a.kind != kFin || g.hasSpecial(a) {
		g.fail("%s is not a plain grid value", what)
	}
}

func (g *G) flag(f *smt.Term) *smt.Term {
	if f == nil {
		return g.c.False()
	}
	return f
}
func (g *G) isNaN(a *lv) *smt.Term {
	c := g.c
	switch a.kind {
	case kRQ:
		// 0/0
		return c.And(g.isZero(a.n), g.isZero(a.d))
	case kRS:
		return g.cmp(a.r, g.constLV(0), "lt")
	}
	return g.flag(a.nan)
}
func (g *G) isPInf(a *lv) *smt.Term {
	c := g.c
	if a.kind == kRQ {
		return c.And(g.isZero(a.d), g.signPos(a.n))
	}
	if a.kind == kRS {
		return c.False()
	}
	return g.flag(a.pinf)
}
func (g *G) isNInf(a *lv) *smt.Term {
	c := g.c
	if a.kind == kRQ {
		return c.And(g.isZero(a.d), g.signNeg(a.n))
	}
	if a.kind == kRS {
		return c.False()
	}
	return g.flag(a.ninf)
}

// isZero / signPos / signNeg of a plain Fin or Fuzzy numerator.
func (g *G) isZero(a *lv) *smt.Term {
	c := g.c
	z := c.Eq(a.k, c.BVC(a.w, 0))
	switch a.kind {
	case kFin:
		if a.eps != 0 {
			return c.False()
		}
		return z
	case kFuzzy:
		// the finite part is zero exactly when the nudged value and the
		// subtrahend coincide, and then delta = ulp > 0
		return c.False()
	}
	g.fail("isZero of kind %d", a.kind)
	return nil
}

func (g *G) signPos(a *lv) *smt.Term {
	c := g.c
	pos := c.SLt(c.BVC(a.w, 0), a.k)
	z := c.Eq(a.k, c.BVC(a.w, 0))
	switch a.kind {
	case kFin:
		if a.eps > 0 {
			return c.Or(pos, z)
		}
		return pos
	case kFuzzy:
		if a.e > 0 {
			return c.Or(pos, c.And(z, a.strict))
		}
		return pos
	}
	g.fail("sign of kind %d", a.kind)
	return nil
}
func (g *G) signNeg(a *lv) *smt.Term {
	c := g.c
	neg := c.SLt(a.k, c.BVC(a.w, 0))
	z := c.Eq(a.k, c.BVC(a.w, 0))
	switch a.kind {
	case kFin:
		if a.eps < 0 {
			return c.Or(neg, z)
		}
		return neg
	case kFuzzy:
		if a.e < 0 {
			return c.Or(neg, c.And(z, a.strict))
		}
		return neg
	}
	g.fail("sign of kind %d", a.kind)
	return nil
}

func orNil(c *smt.Ctx, cond *smt.Term, a, b *smt.Term) *smt.Term {
	if a == nil && b == nil {
		return nil
	}
	if a == nil {
		a = c.False()
	}
	if b == nil {
		b = c.False()
	}
	r := c.Ite(cond, a, b)
	if r.IsFalse() {
		return nil
	}
	return r
}

func (g *G) ite(cond *smt.Term, a, b *lv) *lv {
	c := g.c
	if cond.IsTrue() {
		return a
	}
	if cond.IsFalse() {
		return b
	}
	if a == b {
		return a
	}
	if a.kind != b.kind || a.kind != kFin || a.eps != b.eps {
		// different tags cannot be merged into one term
		g.fail("ite over values of different exactness tags")
	}
	k1, k2, w, s := g.align(a, b)
	return &lv{kind: kFin, k: c.Ite(cond, k1, k2), w: w, s: s, eps: a.eps, noArith: a.noArith || b.noArith,
		nan: orNil(c, cond, a.nan, b.nan), pinf: orNil(c, cond, a.pinf, b.pinf), ninf: orNil(c, cond, a.ninf, b.ninf)}
}

// align brings two Fin values to a common scale and width.
func (g *G) align(a, b *lv) (k1, k2 *smt.Term, w, s int) {
	c := g.c
	s = a.s
	if b.s > s {
		s = b.s
	}
	wa := a.w + (s - a.s)
	wb := b.w + (s - b.s)
	w = wa
	if wb > w {
		w = wb
	}
	sh := func(k *smt.Term, kw, by int) *smt.Term {
		k = c.SExt(k, w)
		if by > 0 {
			k = c.Shl(k, c.BVC(w, uint64(by)))
		}
		return k
	}
	return sh(a.k, a.w, s-a.s), sh(b.k, b.w, s-b.s), w, s
}

func (g *G) neg(a *lv) *lv {
	c := g.c
	switch a.kind {
	case kFin:
		return &lv{kind: kFin, k: c.Neg(c.SExt(a.k, a.w+1)), w: a.w + 1, s: a.s, eps: -a.eps, nan: a.nan, pinf: a.ninf, ninf: a.pinf}
	case kFuzzy:
		return &lv{kind: kFuzzy, k: c.Neg(c.SExt(a.k, a.w+1)), w: a.w + 1, s: a.s, e: -a.e, strict: a.strict}
	case kRQ:
		return &lv{kind: kRQ, n: g.neg(a.n), d: a.d}
	}
	g.fail("negation of a rounded value")
	return nil
}

func (g *G) anySpecial(a, b *lv) *smt.Term {
	c := g.c
	return c.Or(g.flag(a.nan), g.flag(a.pinf), g.flag(a.ninf), g.flag(b.nan), g.flag(b.pinf), g.flag(b.ninf))
}

func (g *G) add(a, b *lv, sub bool) *lv {
	c := g.c
	if sub {
		b = g.neg0(b)
	}
	if a.kind != kFin || b.kind != kFin {
		g.fail("addition involving a rounded value")
	}
	if a.noArith || b.noArith {
		g.fail("arithmetic on a huge constant")
	}
	if g.hasSpecial(a) || g.hasSpecial(b) {
		// Inf/NaN arithmetic: keep flags symbolic for the common cases
		// x + Inf = Inf, Inf - Inf = NaN
		if a.eps != 0 || b.eps != 0 {
			g.fail("nudged value mixed with infinities")
		}
		k1, k2, w, s := g.align(a, b)
		pin := c.Or(g.flag(a.pinf), g.flag(b.pinf))
		nin := c.Or(g.flag(a.ninf), g.flag(b.ninf))
		nan := c.Or(g.flag(a.nan), g.flag(b.nan), c.And(pin, nin))
		r := &lv{kind: kFin, k: c.Add(c.SExt(k1, w+1), c.SExt(k2, w+1)), w: w + 1, s: s}
		r.nan = nilIfFalse(nan)
		r.pinf = nilIfFalse(c.And(pin, c.Not(nan)))
		r.ninf = nilIfFalse(c.And(nin, c.Not(nan)))
		g.checkWidth(r)
		return r
	}
	k1, k2, w, s := g.align(a, b)
	sum := c.Add(c.SExt(k1, w+1), c.SExt(k2, w+1))
	if a.eps != 0 || b.eps != 0 {
		if a.eps != 0 && b.eps != 0 {
			g.fail("two nudged values combined")
		}
		e := a.eps + b.eps
		// (x + e*ulp) - y: exact when x == y (Sterbenz), otherwise the ulp may be
		// absorbed by rounding: delta in [0, ulp].
		var strict *smt.Term
		if a.eps != 0 {
			strict = c.Eq(k1, c.Neg(k2))
		} else {
			strict = c.Eq(k2, c.Neg(k1))
		}
		return &lv{kind: kFuzzy, k: sum, w: w + 1, s: s, e: e, strict: strict}
	}
	r := &lv{kind: kFin, k: sum, w: w + 1, s: s}
	g.checkWidth(r)
	return r
}

func nilIfFalse(t *smt.Term) *smt.Term {
	if t.IsFalse() {
		return nil
	}
	return t
}

func (g *G) neg0(b *lv) *lv { return g.neg(b) }

func (g *G) checkWidth(r *lv) {
	if r.w > maxExactWidth+r.trailing() {
		g.fail("result needs %d bits: not exactly representable", r.w)
	}
}

func (r *lv) trailing() int { return 0 }

func (g *G) mul(a, b *lv) *lv {
	c := g.c
	// 0 * (rounded finite value) = 0
	if a.kind == kFin && !g.hasSpecial(a) && a.k.IsConst() && a.k.U == 0 && a.eps == 0 && (b.kind == kRS || b.kind == kRQ) {
		return g.constLV(0)
	}
	if b.kind == kFin && !g.hasSpecial(b) && b.k.IsConst() && b.k.U == 0 && b.eps == 0 && (a.kind == kRS || a.kind == kRQ) {
		return g.constLV(0)
	}
	if a.kind != kFin || b.kind != kFin || a.eps != 0 || b.eps != 0 {
		g.fail("multiplication involving a rounded or nudged value")
	}
	if a.noArith || b.noArith {
		g.fail("arithmetic on a huge constant")
	}
	w := a.w + b.w
	r := &lv{kind: kFin, k: c.Mul(c.SExt(a.k, w), c.SExt(b.k, w)), w: w, s: a.s + b.s}
	if g.hasSpecial(a) || g.hasSpecial(b) {
		// Inf * 0 = NaN; Inf * x = +-Inf
		za := c.And(c.Eq(a.k, c.BVC(a.w, 0)), c.Not(g.anySpecial(a, a)))
		zb := c.And(c.Eq(b.k, c.BVC(b.w, 0)), c.Not(g.anySpecial(b, b)))
		infA := c.Or(g.flag(a.pinf), g.flag(a.ninf))
		infB := c.Or(g.flag(b.pinf), g.flag(b.ninf))
		nan := c.Or(g.flag(a.nan), g.flag(b.nan), c.And(infA, zb), c.And(infB, za))
		negA := c.Or(g.flag(a.ninf), c.And(c.Not(infA), c.SLt(a.k, c.BVC(a.w, 0))))
		negB := c.Or(g.flag(b.ninf), c.And(c.Not(infB), c.SLt(b.k, c.BVC(b.w, 0))))
		anyInf := c.Or(infA, infB)
		neg := c.Xor(negA, negB)
		r.nan = nilIfFalse(nan)
		r.pinf = nilIfFalse(c.And(anyInf, c.Not(nan), c.Not(neg)))
		r.ninf = nilIfFalse(c.And(anyInf, c.Not(nan), neg))
	}
	g.checkWidth(r)
	return r
}

func (g *G) div(a, b *lv) *lv {
	c := g.c
	if b.kind == kFin && !g.hasSpecial(b) && b.eps == 0 && b.k.IsConst() {
		// division by a power of two is a rescale
		v := b.k.Int()
		if v > 0 && v&(v-1) == 0 && (a.kind == kFin || a.kind == kFuzzy) {
			sh := 0
			for (int64(1) << uint(sh)) != v {
				sh++
			}
			r := *a
			r.s = a.s + sh - b.s
			if r.s < 0 {
				r.k = c.Shl(c.SExt(a.k, a.w-r.s), c.BVC(a.w-r.s, uint64(-r.s)))
				r.w = a.w - r.s
				r.s = 0
			}
			return &r
		}
	}
	if (a.kind != kFin && a.kind != kFuzzy) || b.kind != kFin || b.eps != 0 || (a.kind == kFin && a.eps != 0) {
		g.fail("division involving a rounded or nudged value")
	}
	if g.hasSpecial(a) || g.hasSpecial(b) {
		g.fail("division involving infinities")
	}
	if a.noArith || b.noArith {
		g.fail("arithmetic on a huge constant")
	}
	return &lv{kind: kRQ, n: a, d: b}
}

// ---- comparisons ----

// cmp builds a <op> b with IEEE semantics (any comparison with NaN is false).
func (g *G) cmp(a, b *lv, op string) *smt.Term {
	c := g.c
	nan := c.Or(g.isNaN(a), g.isNaN(b))
	ai := c.Or(g.isPInf(a), g.isNInf(a))
	bi := c.Or(g.isPInf(b), g.isNInf(b))
	var special *smt.Term
	switch op {
	case "lt":
		special = c.Or(c.And(g.isNInf(a), c.Not(g.isNInf(b))), c.And(g.isPInf(b), c.Not(g.isPInf(a))))
	case "le":
		special = c.Or(g.isNInf(a), g.isPInf(b))
	default:
		special = c.Or(c.And(g.isNInf(a), g.isNInf(b)), c.And(g.isPInf(a), g.isPInf(b)))
	}
	anyInf := c.Or(ai, bi)
	if nan.IsFalse() && anyInf.IsFalse() {
		return g.cmpFinite(a, b, op)
	}
	return c.And(c.Not(nan), c.Ite(anyInf, special, g.cmpFinite(a, b, op)))
}

// rat is a value as an exact fraction num/den (den > 0 not required; sign
// handled by the caller) plus an infinitesimal sign term.
func (g *G) cmpFinite(a, b *lv, op string) *smt.Term {
	c := g.c
	// a huge constant is above (below) every value the grid can produce
	if a.noArith || b.noArith {
		if a.noArith && b.noArith {
			g.fail("comparison of two huge constants")
		}
		hugeLeft := a.noArith
		h := a
		if !hugeLeft {
			h = b
		}
		pos := h.k.Int() > 0
		// left is (+huge): a<b false, a<=b false; left is (-huge): true
		var lt bool
		if hugeLeft {
			lt = !pos
		} else {
			lt = pos
		}
		switch op {
		case "lt", "le":
			return c.BoolC(lt)
		default:
			return c.False()
		}
	}
	// square roots: compare radicands / squares
	if a.kind == kRS || b.kind == kRS {
		return g.cmpSqrt(a, b, op)
	}
	// bring both to fractions n/d with symbolic d sign
	an, ad := g.frac(a)
	bn, bd := g.frac(b)
	// exact parts: an/ad ? bn/bd  <=>  an*bd*sgn ? bn*ad*sgn with sgn = sign(ad*bd)
	n1, n2, w, _ := g.align(g.mulPlain(an, bd), g.mulPlain(bn, ad))
	var sgnNeg *smt.Term = c.False()
	if ad != nil || bd != nil {
		da := g.one()
		if ad != nil {
			da = ad
		}
		db := g.one()
		if bd != nil {
			db = bd
		}
		sgnNeg = c.Xor(c.SLt(da.k, c.BVC(da.w, 0)), c.SLt(db.k, c.BVC(db.w, 0)))
	}
	lt := c.Ite(sgnNeg, c.SLt(n2, n1), c.SLt(n1, n2))
	eq := c.Eq(n1, n2)
	_ = w
	// infinitesimal parts decide ties
	ea, eb := g.infSign(a), g.infSign(b)
	if ea == nil && eb == nil {
		switch op {
		case "lt":
			return lt
		case "le":
			return c.Or(lt, eq)
		default:
			return eq
		}
	}
	// tie-break: sign of (inf_a - inf_b); only one side may carry one
	if ea != nil && eb != nil {
		g.fail("comparison of two nudged values")
	}
	var pos, neg, zero *smt.Term // sign of a's infinitesimal minus b's
	if ea != nil {
		pos, neg, zero = ea.pos, ea.neg, ea.zero
		if ea.und != nil {
			g.Ambig = append(g.Ambig, c.And(eq, ea.und))
		}
	} else {
		pos, neg, zero = eb.neg, eb.pos, eb.zero
		if eb.und != nil {
			g.Ambig = append(g.Ambig, c.And(eq, eb.und))
		}
	}
	_ = pos
	switch op {
	case "lt":
		return c.Or(lt, c.And(eq, neg))
	case "le":
		return c.Or(lt, c.And(eq, c.Or(neg, zero)))
	default:
		return c.And(eq, zero)
	}
}

type infS struct{ pos, neg, zero, und *smt.Term }

// infSign describes the sign of the infinitesimal component of a value.
func (g *G) infSign(a *lv) *infS {
	c := g.c
	switch a.kind {
	case kFin:
		if a.eps == 0 {
			return nil
		}
		return &infS{pos: c.BoolC(a.eps > 0), neg: c.BoolC(a.eps < 0), zero: c.False()}
	case kFuzzy:
		// delta > 0 when strict; otherwise undetermined (may have been absorbed)
		return &infS{pos: c.BoolC(a.e > 0), neg: c.BoolC(a.e < 0), zero: c.False(), und: c.Not(a.strict)}
	case kRQ:
		s := g.infSign(a.n)
		if s == nil {
			return nil
		}
		dneg := c.SLt(a.d.k, c.BVC(a.d.w, 0))
		return &infS{pos: c.Ite(dneg, s.neg, s.pos), neg: c.Ite(dneg, s.pos, s.neg), zero: s.zero, und: s.und}
	}
	return nil
}

func (g *G) one() *lv { return &lv{kind: kFin, k: g.c.IntC(2, 1), w: 2} }

// frac returns numerator and denominator (nil = 1) of the exact part.
func (g *G) frac(a *lv) (n, d *lv) {
	switch a.kind {
	case kFin, kFuzzy:
		return a, nil
	case kRQ:
		return a.n, a.d
	}
	g.fail("fraction of kind %d", a.kind)
	return nil, nil
}

// mulPlain multiplies exact parts ignoring infinitesimals (any width).
func (g *G) mulPlain(a, b *lv) *lv {
	c := g.c
	if b == nil {
		return &lv{kind: kFin, k: a.k, w: a.w, s: a.s}
	}
	w := a.w + b.w
	return &lv{kind: kFin, k: c.Mul(c.SExt(a.k, w), c.SExt(b.k, w)), w: w, s: a.s + b.s}
}

// cmpSqrt compares where at least one side is a rounded square root of an
// exact non-negative radicand (Lemma S: distinct radicals / grid values are
// separated by more than the rounding error).
func (g *G) cmpSqrt(a, b *lv, op string) *smt.Term {
	c := g.c
	sq := func(x *lv) *lv { // value squared, and its sign
		if x.kind == kRS {
			return x.r
		}
		if x.kind != kFin || x.eps != 0 {
			g.fail("square root compared with a rounded value")
		}
		return g.mulPlain(x, x)
	}
	negSide := func(x *lv) *smt.Term { // x < 0
		if x.kind == kRS {
			return c.False()
		}
		return c.SLt(x.k, c.BVC(x.w, 0))
	}
	a2, b2 := sq(a), sq(b)
	n1, n2, _, _ := g.align(a2, b2)
	an, bn := negSide(a), negSide(b)
	// both non-negative: compare squares; a<0<=b: a<b; b<0<=a: a>b; both negative: reversed
	ltSq, eqSq := c.SLt(n1, n2), c.Eq(n1, n2)
	lt := c.Ite(an, c.Ite(bn, c.SLt(n2, n1), c.True()), c.Ite(bn, c.False(), ltSq))
	eq := c.And(c.Eq(an, bn), eqSq)
	if (a.kind == kRS && a.loose || b.kind == kRS && b.loose) && a != b {
		g.Ambig = append(g.Ambig, eq)
	}
	switch op {
	case "lt":
		return lt
	case "le":
		return c.Or(lt, eq)
	}
	return eq
}

// TakeAmbig returns the accumulated undetermined-tie conditions. They stay
// registered (memoised lifts do not re-add them), so every query of the
// session is made under their negation.
func (g *G) TakeAmbig() []*smt.Term { return g.Ambig }
