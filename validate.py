import json,sys,glob
import jsonschema
m=json.load(open('/verif/MANIFEST.json')); jsonschema.validate(m,json.load(open('/root/.vp/MANIFEST.schema.json')))
es=json.load(open('/root/.vp/EVIDENCE.schema.json'))
for f in sorted(glob.glob('/verif/evidence/*.json')):
    e=json.load(open(f)); jsonschema.validate(e,es)
    c=e['coverage']
    print(f.split('/')[-1], e['tier'], 'paths',c.get('states'),'queries',c.get('transitions'),'validated',c.get('traces_validated_against_impl'),'viol',e.get('violations'),'wall',e['wall_s'])
print('manifest+evidence valid; checks:',[c['property_id'] for c in m['checks']])
