package rtree

import (
	"github.com/ctessum/geom"
)

// C11: one inductive step. The pre-state is an arbitrary well-formed tree of
// a bounded shape built directly from node/entry structs (boxes symbolic,
// internal boxes computed by the real computeBoundingBox); one Insert or
// Delete is executed; the post-state must again be well formed, with the
// right contents. A separate harness shows that on every well-formed tree
// SearchIntersect equals a brute-force scan.

// Heuristic callees are replaced by their nondeterministic contracts
// (hooks in an overlay copy of rtree.go generated from the current source);
// the VH_C11_contract_* harnesses prove that the real functions refine them.
var (
	vHook_pickSeeds   func(n *node) (int, int)
	vHook_pickNext    func(left, right *node, entries []entry) int
	vHook_assignGroup func(e entry, left, right *node)
	vHook_chooseNode  func(tree *Rtree, n *node, e entry, level int) *node
)

func vSummaries(on bool) {
	if !on {
		vHook_pickSeeds, vHook_pickNext, vHook_assignGroup, vHook_chooseNode = nil, nil, nil, nil
		return
	}
	// any pair 0 <= l < r < len(entries)
	vHook_pickSeeds = func(n *node) (int, int) {
		k := len(n.entries)
		c := vChoose(k * (k - 1) / 2)
		for l := 0; l < k; l++ {
			for r := l + 1; r < k; r++ {
				if c == 0 {
					return l, r
				}
				c--
			}
		}
		return 0, 1
	}
	// any index in range
	vHook_pickNext = func(left, right *node, entries []entry) int { return vChoose(len(entries)) }
	// the entry goes to exactly one of the two groups
	vHook_assignGroup = func(e entry, left, right *node) {
		if vChoose(2) == 0 {
			assign(e, left)
		} else {
			assign(e, right)
		}
	}
	// descends through an arbitrary entry until a leaf or the requested level
	vHook_chooseNode = func(tree *Rtree, n *node, e entry, level int) *node {
		if n.leaf || n.level == level {
			return n
		}
		return tree.chooseNode(n.entries[vChoose(len(n.entries))].child, e, level)
	}
}

// boxes: every coordinate any non-NaN double (comparison-only code: decided
// on integer order keys)
func vGridBox() *geom.Bounds {
	b := &geom.Bounds{}
	b.Min.X, b.Min.Y = vFloatOrd(), vFloatOrd()
	b.Max.X, b.Max.Y = vFloatOrd(), vFloatOrd()
	vAssume(vAnd(b.Min.X <= b.Max.X, b.Min.Y <= b.Max.Y))
	return b
}

// boxes on the signed 3-bit integer grid, for the arithmetic heuristics
func vArithBox() *geom.Bounds {
	b := &geom.Bounds{}
	b.Min.X, b.Min.Y = vGrid(3, 0), vGrid(3, 0)
	b.Max.X, b.Max.Y = vGrid(3, 0), vGrid(3, 0)
	vAssume(vAnd(b.Min.X <= b.Max.X, b.Min.Y <= b.Max.Y))
	return b
}

type vState struct {
	tree *Rtree
	objs []geom.Geom // stored objects, with multiplicity
}

func (s *vState) leaf(n int) *node {
	nd := &node{leaf: true, level: 1, entries: make([]entry, 0, s.tree.MaxChildren)}
	for i := 0; i < n; i++ {
		o := vGridBox()
		nd.entries = append(nd.entries, entry{bb: o.Bounds(), obj: o})
		s.objs = append(s.objs, o)
	}
	return nd
}

func vInner(level int, kids []*node) *node {
	nd := &node{level: level}
	for _, k := range kids {
		k.parent = nd
		nd.entries = append(nd.entries, entry{bb: k.computeBoundingBox(), child: k})
	}
	return nd
}

// vPreState builds a well-formed tree: height 1 (root leaf with 0..4
// entries), height 2 (2..4 leaves with sizes from sizes), or height 3 (two
// inner nodes of two leaves each).
// maxKids bounds the number of leaves under a height-2 root (3: a leaf split
// never overflows the root; the double split is outside the bound).
var vMaxKids = 3

func vPreState(height int, sizes, others []int) *vState {
	vSummaries(true)
	s := &vState{tree: &Rtree{MinChildren: 2, MaxChildren: 4}}
	t := s.tree
	switch height {
	case 1:
		t.root = s.leaf(vChoose(5))
	case 2:
		// 2..4 leaves; one designated leaf has a size from sizes, the others
		// all have one common size from others
		c := 2 + vChoose(vMaxKids-1)
		special := vChoose(c)
		sp := sizes[vChoose(len(sizes))]
		ot := others[vChoose(len(others))]
		kids := make([]*node, c)
		for i := range kids {
			if i == special {
				kids[i] = s.leaf(sp)
			} else {
				kids[i] = s.leaf(ot)
			}
		}
		t.root = vInner(2, kids)
	default:
		a := vInner(2, []*node{s.leaf(sizes[vChoose(len(sizes))]), s.leaf(1)})
		b := vInner(2, []*node{s.leaf(1), s.leaf(sizes[vChoose(len(sizes))])})
		t.root = vInner(3, []*node{a, b})
	}
	t.height = height
	t.size = len(s.objs)
	return s
}

// ---- well-formedness ----

func vEnvelope(n *node) (minx, miny, maxx, maxy float64, contains, tight func(b *geom.Bounds) bool) {
	return
}

// vCheckNode verifies the subtree below n and returns its leaf depth (-1 if
// leaves are at different depths) and appends the stored objects.
func vCheckNode(t *Rtree, n *node, isRoot bool, objs *[]geom.Geom) int {
	vAssert(len(n.entries) <= t.MaxChildren, "fan-out-at-most-max")
	if !isRoot {
		vAssert(len(n.entries) > 0, "non-root-node-non-empty")
	}
	vAssert(n.leaf == (n.level == 1), "aux-leaf-iff-level-1")
	if n.leaf {
		for _, e := range n.entries {
			vAssert(e.obj != nil && e.child == nil, "leaf-entry-holds-object")
			if e.obj == nil {
				return -1
			}
			ob := e.obj.Bounds()
			vAssert(vAnd(e.bb.Min.X == ob.Min.X, e.bb.Min.Y == ob.Min.Y, e.bb.Max.X == ob.Max.X, e.bb.Max.Y == ob.Max.Y), "leaf-entry-box-is-object-box")
			*objs = append(*objs, e.obj)
		}
		return 1
	}
	depth := 0
	for _, e := range n.entries {
		vAssert(e.child != nil && e.obj == nil, "inner-entry-holds-child")
		if e.child == nil {
			return -1
		}
		vAssert(e.child.parent == n, "aux-parent-link")
		vAssert(e.child.level == n.level-1, "aux-level-numbering")
		d := vCheckNode(t, e.child, false, objs)
		if d < 0 {
			return -1
		}
		if depth == 0 {
			depth = d
		} else if depth != d {
			vAssert(false, "leaves-at-same-depth")
			return -1
		}
		// e.bb is the exact envelope of the child's entries
		c := e.child
		if len(c.entries) == 0 {
			continue
		}
		hitMinX, hitMinY, hitMaxX, hitMaxY := false, false, false, false
		for _, ce := range c.entries {
			vAssert(vAnd(e.bb.Min.X <= ce.bb.Min.X, e.bb.Min.Y <= ce.bb.Min.Y, ce.bb.Max.X <= e.bb.Max.X, ce.bb.Max.Y <= e.bb.Max.Y), "entry-box-contains-subtree")
			hitMinX = vOr(hitMinX, e.bb.Min.X == ce.bb.Min.X)
			hitMinY = vOr(hitMinY, e.bb.Min.Y == ce.bb.Min.Y)
			hitMaxX = vOr(hitMaxX, e.bb.Max.X == ce.bb.Max.X)
			hitMaxY = vOr(hitMaxY, e.bb.Max.Y == ce.bb.Max.Y)
		}
		vAssert(vAnd(hitMinX, hitMinY, hitMaxX, hitMaxY), "entry-box-is-tight")
	}
	return depth + 1
}

func vCount(objs []geom.Geom, o geom.Geom) int {
	n := 0
	for _, x := range objs {
		if x == o {
			n++
		}
	}
	return n
}

func vCheckTree(t *Rtree, want []geom.Geom) {
	var got []geom.Geom
	d := vCheckNode(t, t.root, true, &got)
	if d < 0 {
		return
	}
	vAssert(t.Depth() == d, "depth-equals-leaf-depth")
	vAssert(t.height == t.root.level, "aux-height-is-root-level")
	vAssert(t.Size() == len(want), "size-equals-number-of-stored-objects")
	vAssert(len(got) == len(want), "stored-object-count")
	for _, o := range want {
		vAssert(vCount(got, o) == vCount(want, o), "stored-objects-with-multiplicity")
	}
}

// ---- one step: Insert ----

func vStepInsert(s *vState, dup bool) {
	var o geom.Geom
	if dup && len(s.objs) > 0 {
		o = s.objs[vChoose(len(s.objs))] // the same object once more
	} else {
		o = vGridBox()
	}
	if vCatch(func() { s.tree.Insert(o) }) {
		vAssert(false, "insert-panics")
		return
	}
	vCheckTree(s.tree, append(append([]geom.Geom{}, s.objs...), o))
}

func VH_C11_insert_h1() { vStepInsert(vPreState(1, nil, nil), false); vReach("end") }
func VH_C11_insert_h2() {
	vStepInsert(vPreState(2, []int{1, 4}, []int{1, 1 + 3*vBound(0, 1)}), false)
	vReach("end")
}
func VH_C11_insert_h3() {
	vStepInsert(vPreState(3, []int{4}, nil), false)
	vReach("end")
}
func VH_C11_insert_duplicate() {
	vStepInsert(vPreState(1+vBound(0, 1)*vChoose(2), []int{2, 4}, []int{1}), true)
	vReach("end")
}

// ---- one step: Delete ----

func vStepDelete(s *vState, stored bool) {
	if !stored {
		o := vGridBox()
		var ok bool
		if vCatch(func() { ok = s.tree.Delete(o) }) {
			vAssert(false, "delete-absent-panics")
			return
		}
		vAssert(!ok, "delete-absent-returns-false")
		vCheckTree(s.tree, s.objs)
		return
	}
	if len(s.objs) == 0 {
		return
	}
	i := vChoose(len(s.objs))
	o := s.objs[i]
	var ok bool
	if vCatch(func() { ok = s.tree.Delete(o) }) {
		vAssert(false, "delete-panics")
		return
	}
	vAssert(ok, "delete-stored-succeeds")
	rest := append(append([]geom.Geom{}, s.objs[:i]...), s.objs[i+1:]...)
	vCheckTree(s.tree, rest)
}

func VH_C11_delete_h1()        { vStepDelete(vPreState(1, nil, nil), true); vReach("end") }
func VH_C11_delete_h2()        { vStepDelete(vPreState(2, []int{1, 2, 3}, []int{1, 2}), true); vReach("end") }
func VH_C11_delete_h3()        { vStepDelete(vPreState(3, []int{1, 2}, nil), true); vReach("end") }
func VH_C11_delete_absent_h1() { vStepDelete(vPreState(1, nil, nil), false); vReach("end") }
func VH_C11_delete_absent_h2() { vStepDelete(vPreState(2, []int{1, 2}, []int{1}), false); vReach("end") }

// ---- search = brute force on every well-formed tree ----

func vMeets(a, b *geom.Bounds) bool {
	return vAnd(a.Min.X <= b.Max.X, b.Min.X <= a.Max.X, a.Min.Y <= b.Max.Y, b.Min.Y <= a.Max.Y)
}

func vCheckSearch(s *vState) {
	q := vGridBox()
	var res []geom.Geom
	if vCatch(func() { res = s.tree.SearchIntersect(q) }) {
		vAssert(false, "search-panics")
		return
	}
	// every stored object: returned exactly as often as it is stored, iff its box meets q
	for _, o := range s.objs {
		want := vCount(s.objs, o)
		got := vCount(res, o)
		meets := vMeets(o.Bounds(), q)
		vAssert(vIteB(meets, got == want, got == 0), "search-equals-brute-force")
	}
	for _, r := range res {
		vAssert(vCount(s.objs, r) > 0, "search-returns-only-stored-objects")
	}
}

func VH_C11_search_h1() { vCheckSearch(vPreState(1, nil, nil)); vReach("end") }
func VH_C11_search_h2() { vCheckSearch(vPreState(2, []int{1, 2}, []int{1})); vReach("end") }
func VH_C11_search_h3() { vCheckSearch(vPreState(3, []int{1}, nil)); vReach("end") }

// ---- short histories from NewTree: reachability witnesses for the
// pre-state family, and a direct check of drain-and-refill ----

func VH_C11_history() {
	vSummaries(true)
	t := NewTree(2, 4)
	var objs []geom.Geom
	n := vBound(5, 6)
	for i := 0; i < n; i++ {
		o := vGridBox()
		t.Insert(o)
		objs = append(objs, o)
	}
	vCheckTree(t, objs)
	// drain completely
	for len(objs) > 0 {
		ok := t.Delete(objs[0])
		vAssert(ok, "history-delete-succeeds")
		objs = objs[1:]
	}
	vCheckTree(t, objs)
	o := vGridBox()
	t.Insert(o)
	vCheckTree(t, []geom.Geom{o})
	vReach("end")
}


// ---- the real heuristics refine their contracts (hooks off, grid arithmetic) ----

func vArithNode(k int, leaf bool) *node {
	n := &node{leaf: leaf, level: 1}
	for i := 0; i < k; i++ {
		o := vArithBox()
		n.entries = append(n.entries, entry{bb: o, obj: o})
	}
	return n
}

func VH_C11_contract_pickSeeds() {
	vSummaries(false)
	k := 2 + vChoose(vBound(3, 4))
	n := vArithNode(k, true)
	l, r := n.pickSeeds()
	vAssert(vAnd(0 <= l, l < r, r < k), "pickSeeds-returns-two-distinct-indices-in-range")
	vReach("end")
}

func VH_C11_contract_pickNext() {
	vSummaries(false)
	left, right := vArithNode(1+vChoose(2), true), vArithNode(1+vChoose(2), true)
	k := 1 + vChoose(3)
	rest := vArithNode(k, true).entries
	i := pickNext(left, right, rest)
	vAssert(vAnd(0 <= i, i < k), "pickNext-returns-index-in-range")
	vReach("end")
}

func VH_C11_contract_assignGroup() {
	vSummaries(false)
	left, right := vArithNode(1+vChoose(2), true), vArithNode(1+vChoose(2), true)
	o := vArithBox()
	e := entry{bb: o, obj: o}
	nl, nr := len(left.entries), len(right.entries)
	assignGroup(e, left, right)
	toLeft := len(left.entries) == nl+1 && len(right.entries) == nr && left.entries[nl].obj == o
	toRight := len(right.entries) == nr+1 && len(left.entries) == nl && right.entries[nr].obj == o
	vAssert(toLeft != toRight, "assignGroup-adds-entry-to-exactly-one-group")
	vReach("end")
}

func VH_C11_contract_chooseNode() {
	vSummaries(false)
	// height-2 tree: the chosen node is the root (level 2 requested) or one of its leaves
	t := &Rtree{MinChildren: 2, MaxChildren: 4, height: 2}
	c := 2 + vChoose(2)
	kids := make([]*node, c)
	for i := range kids {
		kids[i] = vArithNode(1+vChoose(2), true)
	}
	t.root = vInner(2, kids)
	o := vArithBox()
	lvl := 1 + vChoose(2)
	got := t.chooseNode(t.root, entry{bb: o, obj: o}, lvl)
	if lvl == 2 {
		vAssert(got == t.root, "chooseNode-stops-at-requested-level")
	} else {
		isKid := false
		for _, k := range kids {
			if got == k {
				isKid = true
			}
		}
		vAssert(isKid, "chooseNode-descends-to-a-child-leaf")
	}
	vReach("end")
}
