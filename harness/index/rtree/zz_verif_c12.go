package rtree

import (
	"github.com/ctessum/geom"
)

// C12: nearest-neighbour queries on well-formed trees (grid boxes, grid
// query point; squared distances are exact integers).

// boxes for the nearest-neighbour harnesses: signed 2-bit (quick) / 3-bit
// (thorough) integer grid
func vNNBox() *geom.Bounds {
	w := vBound(2, 3)
	b := &geom.Bounds{}
	b.Min.X, b.Min.Y = vGrid(w, 0), vGrid(w, 0)
	b.Max.X, b.Max.Y = vGrid(w, 0), vGrid(w, 0)
	vAssume(vAnd(b.Min.X <= b.Max.X, b.Min.Y <= b.Max.Y))
	return b
}

func (s *vState) arithLeaf(n int) *node {
	nd := &node{leaf: true, level: 1}
	for i := 0; i < n; i++ {
		o := vNNBox()
		nd.entries = append(nd.entries, entry{bb: o.Bounds(), obj: o})
		s.objs = append(s.objs, o)
	}
	return nd
}

func vNNTree(height int) *vState {
	vSummaries(false)
	s := &vState{tree: &Rtree{MinChildren: 2, MaxChildren: 4}}
	switch height {
	case 1:
		s.tree.root = s.arithLeaf(1 + vChoose(vBound(3, 4)))
	default:
		c := 2 + vChoose(vBound(1, 1))
		kids := make([]*node, c)
		for i := range kids {
			kids[i] = s.arithLeaf(1 + vChoose(vBound(2, 2)))
		}
		s.tree.root = vInner(2, kids)
	}
	s.tree.height = height
	s.tree.size = len(s.objs)
	return s
}

func vNNTree3() *vState {
	vSummaries(false)
	s := &vState{tree: &Rtree{MinChildren: 2, MaxChildren: 4}}
	kids := []*node{s.arithLeaf(1 + vChoose(2)), s.arithLeaf(1 + vChoose(2)), s.arithLeaf(1)}
	s.tree.root = vInner(2, kids)
	s.tree.height = 2
	s.tree.size = len(s.objs)
	return s
}

// squared distance from p to the closed box b (exact on the grid)
func vDist2(p geom.Point, b *geom.Bounds) float64 {
	dx := vIteF(p.X < b.Min.X, b.Min.X-p.X, vIteF(p.X > b.Max.X, p.X-b.Max.X, 0))
	dy := vIteF(p.Y < b.Min.Y, b.Min.Y-p.Y, vIteF(p.Y > b.Max.Y, p.Y-b.Max.Y, 0))
	return dx*dx + dy*dy
}

func vIndexOf(objs []geom.Geom, o geom.Geom) int {
	for i, x := range objs {
		if x == o {
			return i
		}
	}
	return -1
}

func vCheckKNN(s *vState, k int) {
	p := geom.Point{X: vGrid(vBound(3, 4), 0), Y: vGrid(vBound(3, 4), 0)}
	var res []geom.Geom
	if vCatch(func() { res = s.tree.NearestNeighbors(k, p) }) {
		vAssert(false, "nearestneighbors-panics")
		return
	}
	vAssert(len(res) == k, "result-has-k-slots")
	m := k
	if len(s.objs) < m {
		m = len(s.objs)
	}
	used := make([]bool, len(s.objs))
	last := 0.0
	for i := 0; i < k && i < len(res); i++ {
		if i >= m {
			vAssert(res[i] == nil, "remaining-slots-nil")
			continue
		}
		vAssert(res[i] != nil, "first-min-k-size-slots-filled")
		if res[i] == nil {
			return
		}
		j := vIndexOf(s.objs, res[i])
		vAssert(j >= 0, "result-is-a-stored-object")
		if j < 0 {
			return
		}
		vAssert(!used[j], "results-are-distinct-objects")
		used[j] = true
		d := vDist2(p, res[i].Bounds())
		if i > 0 {
			vAssert(last <= d, "distances-non-decreasing")
		}
		last = d
	}
	// every object left out is at least as far as the farthest one returned
	for j, o := range s.objs {
		if !used[j] && m > 0 {
			vAssert(last <= vDist2(p, o.Bounds()), "no-closer-object-left-out")
		}
	}
}

func VH_C12_knn_h1() { vCheckKNN(vNNTree(1), 1+vChoose(3)); vReach("end") }
func VH_C12_knn_h2() { vCheckKNN(vNNTree(2), 1+vChoose(vBound(2, 3))); vReach("end") }
func VH_C12_knn_h2_wide() {
	// thorough: three leaves
	s := vNNTree3()
	vCheckKNN(s, 1+vChoose(3))
	vReach("end")
}

func VH_C12_nn() {
	s := vNNTree(1 + vChoose(2))
	p := geom.Point{X: vGrid(vBound(3, 4), 0), Y: vGrid(vBound(3, 4), 0)}
	var r geom.Geom
	if vCatch(func() { r = s.tree.NearestNeighbor(p) }) {
		vAssert(false, "nearestneighbor-panics")
		return
	}
	vAssert(vIndexOf(s.objs, r) >= 0, "nn-is-a-stored-object")
	if r == nil {
		return
	}
	d := vDist2(p, r.Bounds())
	for _, o := range s.objs {
		vAssert(d <= vDist2(p, o.Bounds()), "nn-at-minimum-distance")
	}
	vReach("end")
}
