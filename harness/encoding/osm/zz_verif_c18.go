package osm

import (
	"io"

	"github.com/ctessum/geom"
	"github.com/paulmach/osm"
)

// C18: extract under every schedule of the worker pool (2 workers) returns
// the least reference-closed set; Filter is idempotent, closed and a subset.

type vScanner struct {
	objs []osm.Object
	i    int
}

func (s *vScanner) Scan() bool         { s.i++; return s.i <= len(s.objs) }
func (s *vScanner) Object() osm.Object { return s.objs[s.i-1] }
func (s *vScanner) Err() error         { return nil }
func (s *vScanner) Close() error       { return nil }

type vRS struct{}

func (vRS) Read(p []byte) (int, error)       { return 0, io.EOF }
func (vRS) Seek(int64, int) (int64, error) { return 0, nil }

var vWant = map[string][]string{"k": {"v"}}

func vTags(tagged bool) osm.Tags {
	if tagged {
		return osm.Tags{{Key: "k", Value: "v"}}
	}
	return osm.Tags{{Key: "other", Value: "v"}}
}

func vNode(id int64, tagged bool) *osm.Node {
	return &osm.Node{ID: osm.NodeID(id), Lat: vFloatOrd(), Lon: vFloatOrd(), Tags: vTags(tagged)}
}

func vWay(id int64, tagged bool, nodes ...int64) *osm.Way {
	w := &osm.Way{ID: osm.WayID(id), Tags: vTags(tagged)}
	for _, n := range nodes {
		w.Nodes = append(w.Nodes, osm.WayNode{ID: osm.NodeID(n)})
	}
	return w
}

func vRel(id int64, tagged bool, members ...osm.Member) *osm.Relation {
	return &osm.Relation{ID: osm.RelationID(id), Tags: vTags(tagged), Members: members}
}

// vDoc builds one of the document templates; tag presence is case-split.
func vDoc(k int) []osm.Object {
	t := func() bool { return vChoose(2) == 1 }
	switch k {
	case 0: // node then way
		return []osm.Object{vNode(1, t()), vWay(10, t(), 1)}
	case 1: // way before its node
		return []osm.Object{vWay(10, t(), 1), vNode(1, t())}
	case 2: // two nodes, one way
		return []osm.Object{vNode(1, t()), vNode(2, false), vWay(10, t(), 1, 2)}
	case 3: // relation of a way
		return []osm.Object{vNode(1, false), vWay(10, false, 1), vRel(100, t(), osm.Member{Type: osm.TypeWay, Ref: 10})}
	case 4: // node shared between two ways
		return []osm.Object{vNode(1, false), vWay(10, t(), 1), vWay(11, t(), 1)}
	case 6: // a node and a way that carry the same number (the ID spaces are separate), both members of one relation
		ms := []osm.Member{{Type: osm.TypeWay, Ref: 7}, {Type: osm.TypeNode, Ref: 7}}
		if t() {
			ms[0], ms[1] = ms[1], ms[0]
		}
		return []osm.Object{vNode(7, false), vWay(7, false), vRel(100, true, ms...)}
	default: // relations referring to each other
		return []osm.Object{vRel(100, t(), osm.Member{Type: osm.TypeRelation, Ref: 101}), vRel(101, false, osm.Member{Type: osm.TypeRelation, Ref: 100})}
	}
}

// ---- oracle: least closed set, computed sequentially ----

type vSets struct {
	nodes map[int64]bool
	ways  map[int64]bool
	rels  map[int64]bool
}

func vClosure(doc []osm.Object, selected func(o osm.Object, s *vSets) bool) *vSets {
	s := &vSets{nodes: map[int64]bool{}, ways: map[int64]bool{}, rels: map[int64]bool{}}
	need := &vSets{nodes: map[int64]bool{}, ways: map[int64]bool{}, rels: map[int64]bool{}}
	for changed := true; changed; {
		changed = false
		for _, o := range doc {
			switch t := o.(type) {
			case *osm.Node:
				id := int64(t.ID)
				if !s.nodes[id] && (selected(o, s) || need.nodes[id]) {
					s.nodes[id] = true
					changed = true
				}
			case *osm.Way:
				id := int64(t.ID)
				if !s.ways[id] && (selected(o, s) || need.ways[id]) {
					s.ways[id] = true
					changed = true
				}
				if s.ways[id] {
					for _, n := range t.Nodes {
						if !need.nodes[int64(n.ID)] {
							need.nodes[int64(n.ID)] = true
							changed = true
						}
					}
				}
			case *osm.Relation:
				id := int64(t.ID)
				if !s.rels[id] && (selected(o, s) || need.rels[id]) {
					s.rels[id] = true
					changed = true
				}
				if s.rels[id] {
					for _, m := range t.Members {
						var mm map[int64]bool
						switch m.Type {
						case osm.TypeNode:
							mm = need.nodes
						case osm.TypeWay:
							mm = need.ways
						default:
							mm = need.rels
						}
						if !mm[m.Ref] {
							mm[m.Ref] = true
							changed = true
						}
					}
				}
			}
		}
	}
	return s
}

func vTagged(o osm.Object, _ *vSets) bool {
	switch t := o.(type) {
	case *osm.Node:
		return hasTag(t.Tags, vWant)
	case *osm.Way:
		return hasTag(t.Tags, vWant)
	case *osm.Relation:
		return hasTag(t.Tags, vWant)
	}
	return false
}

func vCheckResult(d *Data, want *vSets, doc []osm.Object) {
	vAssert(len(d.Nodes) == len(want.nodes), "node-count-is-least-closed-set")
	vAssert(len(d.Ways) == len(want.ways), "way-count-is-least-closed-set")
	vAssert(len(d.Relations) == len(want.rels), "relation-count-is-least-closed-set")
	for id := range want.nodes {
		_, ok := d.Nodes[osm.NodeID(id)]
		vAssert(ok, "needed-node-present")
	}
	for id := range want.ways {
		_, ok := d.Ways[osm.WayID(id)]
		vAssert(ok, "needed-way-present")
	}
	for id := range want.rels {
		_, ok := d.Relations[osm.RelationID(id)]
		vAssert(ok, "needed-relation-present")
	}
	vAssert(d.Check() == nil, "result-passes-check")
}

func vExtract(doc []osm.Object, keep KeepFunc) *Data {
	d, err := extract(nil, vRS{}, func() osm.Scanner { return &vScanner{objs: doc} }, keep, true)
	vAssert(err == nil, "extract-succeeds")
	return d
}

func VH_C18_extract_tags() {
	doc := vDoc(vChoose(vBound(5, 6)))
	d := vExtract(doc, KeepTags(vWant))
	if d != nil {
		vCheckResult(d, vClosure(doc, vTagged), doc)
	}
	vReach("end")
}

// separate ID spaces: a node and a way with the same number
func VH_C18_extract_shared_ids() {
	doc := vDoc(6)
	d := vExtract(doc, KeepTags(vWant))
	if d != nil {
		vCheckResult(d, vClosure(doc, vTagged), doc)
	}
	vReach("end")
}

func VH_C18_extract_all() {
	doc := vDoc(vChoose(3))
	d := vExtract(doc, KeepAll())
	if d != nil {
		vCheckResult(d, vClosure(doc, func(osm.Object, *vSets) bool { return true }), doc)
	}
	vReach("end")
}

// KeepBounds: a node is selected when it lies in the box; a way or relation
// when one of its members is in the result.
func VH_C18_extract_bounds() {
	doc := vDoc(vChoose(vBound(3, 5)))
	b := &geom.Bounds{Min: geom.Point{X: vFloatOrd(), Y: vFloatOrd()}, Max: geom.Point{X: vFloatOrd(), Y: vFloatOrd()}}
	vAssume(vAnd(b.Min.X <= b.Max.X, b.Min.Y <= b.Max.Y))
	inside := map[int64]bool{}
	for _, o := range doc {
		if n, ok := o.(*osm.Node); ok {
			inside[int64(n.ID)] = vConcreteB(vAnd(b.Min.X <= n.Lon, n.Lon <= b.Max.X, b.Min.Y <= n.Lat, n.Lat <= b.Max.Y))
		}
	}
	sel := func(o osm.Object, s *vSets) bool {
		switch t := o.(type) {
		case *osm.Node:
			return inside[int64(t.ID)]
		case *osm.Way:
			for _, n := range t.Nodes {
				if s.nodes[int64(n.ID)] {
					return true
				}
			}
		case *osm.Relation:
			for _, m := range t.Members {
				switch m.Type {
				case osm.TypeNode:
					if s.nodes[m.Ref] {
						return true
					}
				case osm.TypeWay:
					if s.ways[m.Ref] {
						return true
					}
				default:
					if s.rels[m.Ref] {
						return true
					}
				}
			}
		}
		return false
	}
	d := vExtract(doc, KeepBounds(b))
	if d != nil {
		vCheckResult(d, vClosure(doc, sel), doc)
	}
	vReach("end")
}

// vConcreteB forks on a symbolic condition and returns the concrete outcome.
func vConcreteB(c bool) bool {
	if c {
		return true
	}
	return false
}

// Filter by tags / keep-all: a subset, closed under references, idempotent;
// every map iteration order is explored.
func VH_C18_filter() {
	doc := vDoc([]int{0, 1, 2, 3, 4, 5, 6}[vChoose(7)])
	d := &Data{Nodes: map[osm.NodeID]*Node{}, Ways: map[osm.WayID]*Way{}, Relations: map[osm.RelationID]*Relation{}}
	for _, o := range doc {
		switch t := o.(type) {
		case *osm.Node:
			d.Nodes[t.ID] = copyNode(t, true)
		case *osm.Way:
			d.Ways[t.ID] = copyWay(t, true)
		case *osm.Relation:
			d.Relations[t.ID] = copyRelation(t, true)
		}
	}
	var keep KeepFunc
	var want *vSets
	if vChoose(2) == 0 {
		keep, want = KeepTags(vWant), vClosure(doc, vTagged)
	} else {
		keep, want = KeepAll(), vClosure(doc, func(osm.Object, *vSets) bool { return true })
	}
	f := d.Filter(keep)
	vAssert(len(f.Nodes) <= len(d.Nodes) && len(f.Ways) <= len(d.Ways) && len(f.Relations) <= len(d.Relations), "filter-never-returns-more")
	vCheckFiltered(f, want, d)
	f2 := f.Filter(keep)
	vAssert(len(f2.Nodes) == len(f.Nodes) && len(f2.Ways) == len(f.Ways) && len(f2.Relations) == len(f.Relations), "filter-idempotent")
	vReach("end")
}

// the filtered set holds exactly the closure restricted to objects present in d
func vCheckFiltered(f *Data, want *vSets, d *Data) {
	for id := range want.nodes {
		if _, in := d.Nodes[osm.NodeID(id)]; in {
			_, ok := f.Nodes[osm.NodeID(id)]
			vAssert(ok, "filter-closed-under-node-references")
		}
	}
	for id := range want.ways {
		if _, in := d.Ways[osm.WayID(id)]; in {
			_, ok := f.Ways[osm.WayID(id)]
			vAssert(ok, "filter-closed-under-way-references")
		}
	}
	for id := range want.rels {
		if _, in := d.Relations[osm.RelationID(id)]; in {
			_, ok := f.Relations[osm.RelationID(id)]
			vAssert(ok, "filter-closed-under-relation-references")
		}
	}
	for id := range f.Nodes {
		vAssert(want.nodes[int64(id)], "filter-keeps-only-selected-or-referenced-nodes")
	}
	for id := range f.Ways {
		vAssert(want.ways[int64(id)], "filter-keeps-only-selected-or-referenced-ways")
	}
	for id := range f.Relations {
		vAssert(want.rels[int64(id)], "filter-keeps-only-selected-or-referenced-relations")
	}
}
