package wkt

import (
	"math"

	"github.com/ctessum/geom"
)

func vFinite() float64 {
	f := vFloat64()
	vAssume(vAnd(!math.IsNaN(f), !math.IsInf(f, 0)))
	return f
}

func vPts(minN, maxN int) []geom.Point {
	n := minN + vChoose(maxN-minN+1)
	p := make([]geom.Point, n)
	for i := range p {
		p[i] = geom.Point{X: vFinite(), Y: vFinite()}
	}
	return p
}

func vRings(maxR, maxV int) []geom.Path {
	n := 1 + vChoose(maxR)
	r := make([]geom.Path, n)
	for i := range r {
		r[i] = geom.Path(vPts(1, maxV))
	}
	return r
}

// ---- independent recursive-descent recogniser of the OGC WKT grammar ----
//
//	geometry   := POINT '(' coord ')' | LINESTRING coords | POLYGON rings
//	            | MULTILINESTRING '(' coords {',' coords} ')' | MULTIPOLYGON '(' rings {',' rings} ')'
//	rings      := '(' coords {',' coords} ')'
//	coords     := '(' coord {',' coord} ')'
//	coord      := number ' ' number
type vParser struct {
	b   []byte
	pos int
	ok  bool
}

func (p *vParser) lit(s string) bool {
	if p.pos+len(s) > len(p.b) {
		return false
	}
	for i := 0; i < len(s); i++ {
		if p.b[p.pos+i] != s[i] {
			return false
		}
	}
	p.pos += len(s)
	return true
}

func (p *vParser) expect(s string) {
	if !p.lit(s) {
		p.ok = false
	}
}

func (p *vParser) peek(c byte) bool { return p.pos < len(p.b) && p.b[p.pos] == c }

func (p *vParser) coord() geom.Point {
	x, next, ok := vNumAt(p.b, p.pos)
	if !ok {
		p.ok = false
		return geom.Point{}
	}
	p.pos = next
	p.expect(" ")
	y, next, ok := vNumAt(p.b, p.pos)
	if !ok {
		p.ok = false
		return geom.Point{}
	}
	p.pos = next
	return geom.Point{X: x, Y: y}
}

func (p *vParser) coords() []geom.Point {
	var out []geom.Point
	p.expect("(")
	for p.ok {
		out = append(out, p.coord())
		if !p.lit(",") {
			break
		}
	}
	p.expect(")")
	return out
}

func (p *vParser) rings() []geom.Path {
	var out []geom.Path
	p.expect("(")
	for p.ok {
		out = append(out, geom.Path(p.coords()))
		if !p.lit(",") {
			break
		}
	}
	p.expect(")")
	return out
}

func (p *vParser) geometry() geom.Geom {
	p.ok = true
	switch {
	case p.lit("POINT"):
		c := p.coords()
		if len(c) != 1 {
			p.ok = false
			return nil
		}
		return c[0]
	case p.lit("LINESTRING"):
		return geom.LineString(p.coords())
	case p.lit("POLYGON"):
		return geom.Polygon(p.rings())
	case p.lit("MULTILINESTRING"):
		var ml geom.MultiLineString
		p.expect("(")
		for p.ok {
			ml = append(ml, geom.LineString(p.coords()))
			if !p.lit(",") {
				break
			}
		}
		p.expect(")")
		return ml
	case p.lit("MULTIPOLYGON"):
		var mp geom.MultiPolygon
		p.expect("(")
		for p.ok {
			mp = append(mp, geom.Polygon(p.rings()))
			if !p.lit(",") {
				break
			}
		}
		p.expect(")")
		return mp
	}
	p.ok = false
	return nil
}

func vSamePts(a, b []geom.Point) bool {
	if len(a) != len(b) {
		return false
	}
	r := true
	for i := range a {
		r = vAnd(r, vSameBits(a[i].X, b[i].X), vSameBits(a[i].Y, b[i].Y))
	}
	return r
}

func vSamePaths(a, b []geom.Path) bool {
	if len(a) != len(b) {
		return false
	}
	r := true
	for i := range a {
		r = vAnd(r, vSamePts(a[i], b[i]))
	}
	return r
}

func vSameGeom(a, b geom.Geom) bool {
	switch x := a.(type) {
	case geom.Point:
		y, ok := b.(geom.Point)
		return ok && vAnd(vSameBits(x.X, y.X), vSameBits(x.Y, y.Y))
	case geom.LineString:
		y, ok := b.(geom.LineString)
		return ok && vSamePts(x, y)
	case geom.Polygon:
		y, ok := b.(geom.Polygon)
		return ok && vSamePaths(x, y)
	case geom.MultiLineString:
		y, ok := b.(geom.MultiLineString)
		if !ok || len(x) != len(y) {
			return false
		}
		r := true
		for i := range x {
			r = vAnd(r, vSamePts(x[i], y[i]))
		}
		return r
	case geom.MultiPolygon:
		y, ok := b.(geom.MultiPolygon)
		if !ok || len(x) != len(y) {
			return false
		}
		r := true
		for i := range x {
			r = vAnd(r, vSamePaths(x[i], y[i]))
		}
		return r
	}
	return false
}

func vCheckWKT(g geom.Geom) {
	out, err := Encode(g)
	vAssert(err == nil, "encode-succeeds")
	p := &vParser{b: out}
	got := p.geometry()
	vAssert(p.ok, "accepted-by-independent-ogc-grammar")
	vAssert(p.pos == len(out), "no-trailing-text")
	vAssert(vSameGeom(g, got), "parses-back-to-same-geometry")
}

func VH_C17_point()      { vCheckWKT(geom.Point{X: vFinite(), Y: vFinite()}); vReach("end") }
func VH_C17_linestring() { vCheckWKT(geom.LineString(vPts(1, vBound(3, 4)))); vReach("end") }
func VH_C17_polygon()    { vCheckWKT(geom.Polygon(vRings(vBound(2, 3), vBound(3, 3)))); vReach("end") }
func VH_C17_multilinestring() {
	n := 1 + vChoose(vBound(3, 3))
	ml := make(geom.MultiLineString, n)
	for i := range ml {
		ml[i] = geom.LineString(vPts(1, vBound(2, 3)))
	}
	vCheckWKT(ml)
	vReach("end")
}
func VH_C17_multipolygon() {
	n := 1 + vChoose(vBound(2, 3))
	mp := make(geom.MultiPolygon, n)
	for i := range mp {
		mp[i] = geom.Polygon(vRings(2, vBound(2, 3)))
	}
	vCheckWKT(mp)
	vReach("end")
}

// other geometry types are rejected with an error rather than mis-encoded
func VH_C17_unsupported() {
	var g geom.Geom
	switch vChoose(3) {
	case 0:
		g = geom.MultiPoint(vPts(1, 2))
	case 1:
		g = geom.GeometryCollection{geom.Point{X: vFinite(), Y: vFinite()}}
	default:
		g = &geom.Bounds{Min: geom.Point{X: vFinite(), Y: vFinite()}, Max: geom.Point{X: vFinite(), Y: vFinite()}}
	}
	out, err := Encode(g)
	vAssert(err != nil, "unsupported-type-rejected")
	vAssert(out == nil, "no-output-for-unsupported-type")
	vReach("end")
}
