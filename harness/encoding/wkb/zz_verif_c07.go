package wkb

import (
	"encoding/binary"

	"github.com/ctessum/geom"
)

// C07: the WKB decoder is total on arbitrary bytes: a geometry or an error,
// never a panic, memory bounded by the input length (the engine meters every
// allocation against 64*len+16MiB), and a successful decode is stable under
// re-encoding.
func vDecodeArbitrary(n int) {
	buf := make([]byte, n)
	for i := range buf {
		buf[i] = vByte()
	}
	vInputLen(n)
	var g geom.Geom
	var err error
	if vCatch(func() { g, err = Decode(buf) }) {
		vAssert(false, "decode-panics")
		return
	}
	if err != nil {
		vAssert(g == nil, "error-with-geometry")
		return
	}
	vAssert(g != nil, "nil-geometry-without-error")
	var order binary.ByteOrder = NDR
	if buf[0] == 0 {
		order = XDR
	}
	b2, err := Encode(g, order)
	vAssert(err == nil, "reencode-succeeds")
	g2, err := Decode(b2)
	vAssert(err == nil, "redecode-succeeds")
	vAssert(vSameGeom(g, g2), "decode-encode-decode-stable")
}

func VH_C07_wkb_len0to12() {
	vDecodeArbitrary(vChoose(13))
	vReach("end")
}
func VH_C07_wkb_len13to21() {
	vDecodeArbitrary(13 + vChoose(9))
	vReach("end")
}
func VH_C07_wkb_len22to26() {
	vDecodeArbitrary(22 + vChoose(5))
	vReach("end")
}
func VH_C07_wkb_len27to30() {
	vDecodeArbitrary(27 + vChoose(4))
	vReach("end")
}
