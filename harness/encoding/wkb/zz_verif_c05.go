package wkb

import (
	"encoding/binary"
	"math"

	"github.com/ctessum/geom"
)

// ---- generators: arbitrary 64-bit coordinate patterns, case-split counts ----

func vPt() geom.Point { return geom.Point{X: vFloat64(), Y: vFloat64()} }

func vPts(max int) []geom.Point {
	n := vChoose(max + 1)
	p := make([]geom.Point, n)
	for i := range p {
		p[i] = vPt()
	}
	return p
}

func vPaths(maxR, maxV int) []geom.Path {
	n := vChoose(maxR + 1)
	p := make([]geom.Path, n)
	for i := range p {
		p[i] = geom.Path(vPts(maxV))
	}
	return p
}

func vGeomOfKind(k, depth, maxM, maxV int) geom.Geom {
	switch k {
	case 0:
		return vPt()
	case 1:
		return geom.LineString(vPts(maxV))
	case 2:
		return geom.Polygon(vPaths(maxM, maxV))
	case 3:
		return geom.MultiPoint(vPts(maxV))
	case 4:
		n := vChoose(maxM + 1)
		ml := make(geom.MultiLineString, n)
		for i := range ml {
			ml[i] = geom.LineString(vPts(maxV))
		}
		return ml
	case 5:
		n := vChoose(maxM + 1)
		mp := make(geom.MultiPolygon, n)
		for i := range mp {
			mp[i] = geom.Polygon(vPaths(maxM, maxV))
		}
		return mp
	default:
		n := vChoose(maxM + 1)
		gc := make(geom.GeometryCollection, n)
		for i := range gc {
			kk := 6
			if depth > 1 {
				kk = 7
			}
			gc[i] = vGeomOfKind(vChoose(kk), depth-1, 1, 1)
		}
		return gc
	}
}

// ---- independent OGC serializer (oracle) ----

type vSer struct {
	b     []byte
	mixed bool // choose a byte order per nested element
}

func (s *vSer) u32(le bool, v uint32) {
	if le {
		s.b = append(s.b, byte(v), byte(v>>8), byte(v>>16), byte(v>>24))
	} else {
		s.b = append(s.b, byte(v>>24), byte(v>>16), byte(v>>8), byte(v))
	}
}

func (s *vSer) f64(le bool, f float64) {
	u := math.Float64bits(f)
	if le {
		for i := uint(0); i < 8; i++ {
			s.b = append(s.b, byte(u>>(8*i)))
		}
	} else {
		for i := uint(0); i < 8; i++ {
			s.b = append(s.b, byte(u>>(56-8*i)))
		}
	}
}

func (s *vSer) header(le bool, code uint32) bool {
	if s.mixed {
		le = vChoose(2) == 1
	}
	if le {
		s.b = append(s.b, 1)
	} else {
		s.b = append(s.b, 0)
	}
	s.u32(le, code)
	return le
}

func (s *vSer) pts(le bool, p []geom.Point) {
	s.u32(le, uint32(len(p)))
	for _, q := range p {
		s.f64(le, q.X)
		s.f64(le, q.Y)
	}
}

func (s *vSer) geom(le bool, g geom.Geom) {
	switch t := g.(type) {
	case geom.Point:
		le = s.header(le, 1)
		s.f64(le, t.X)
		s.f64(le, t.Y)
	case geom.LineString:
		le = s.header(le, 2)
		s.pts(le, t)
	case geom.Polygon:
		le = s.header(le, 3)
		s.u32(le, uint32(len(t)))
		for _, r := range t {
			s.pts(le, r)
		}
	case geom.MultiPoint:
		le = s.header(le, 4)
		s.u32(le, uint32(len(t)))
		for _, p := range t {
			s.geom(le, p)
		}
	case geom.MultiLineString:
		le = s.header(le, 5)
		s.u32(le, uint32(len(t)))
		for _, l := range t {
			s.geom(le, l)
		}
	case geom.MultiPolygon:
		le = s.header(le, 6)
		s.u32(le, uint32(len(t)))
		for _, p := range t {
			s.geom(le, p)
		}
	case geom.GeometryCollection:
		le = s.header(le, 7)
		s.u32(le, uint32(len(t)))
		for _, m := range t {
			s.geom(le, m)
		}
	}
}

// ---- structural bit-exact equality ----

func vSamePts(a, b []geom.Point) bool {
	if len(a) != len(b) {
		return false
	}
	r := true
	for i := range a {
		r = vAnd(r, vSameBits(a[i].X, b[i].X), vSameBits(a[i].Y, b[i].Y))
	}
	return r
}

func vSamePaths(a, b []geom.Path) bool {
	if len(a) != len(b) {
		return false
	}
	r := true
	for i := range a {
		r = vAnd(r, vSamePts(a[i], b[i]))
	}
	return r
}

func vSameGeom(a, b geom.Geom) bool {
	switch x := a.(type) {
	case geom.Point:
		y, ok := b.(geom.Point)
		return ok && vAnd(vSameBits(x.X, y.X), vSameBits(x.Y, y.Y))
	case geom.LineString:
		y, ok := b.(geom.LineString)
		return ok && vSamePts(x, y)
	case geom.MultiPoint:
		y, ok := b.(geom.MultiPoint)
		return ok && vSamePts(x, y)
	case geom.Polygon:
		y, ok := b.(geom.Polygon)
		return ok && vSamePaths(x, y)
	case geom.MultiLineString:
		y, ok := b.(geom.MultiLineString)
		if !ok || len(x) != len(y) {
			return false
		}
		r := true
		for i := range x {
			r = vAnd(r, vSamePts(x[i], y[i]))
		}
		return r
	case geom.MultiPolygon:
		y, ok := b.(geom.MultiPolygon)
		if !ok || len(x) != len(y) {
			return false
		}
		r := true
		for i := range x {
			r = vAnd(r, vSamePaths(x[i], y[i]))
		}
		return r
	case geom.GeometryCollection:
		y, ok := b.(geom.GeometryCollection)
		if !ok || len(x) != len(y) {
			return false
		}
		r := true
		for i := range x {
			r = vAnd(r, vSameGeom(x[i], y[i]))
		}
		return r
	}
	return false
}

func vSameBytes(a, b []byte) bool {
	if len(a) != len(b) {
		return false
	}
	r := true
	for i := range a {
		r = vAnd(r, a[i] == b[i])
	}
	return r
}

// vRoundTrip: encode == independent serializer; decode(encode) == id.
func vRoundTrip(g geom.Geom) {
	le := vChoose(2) == 1
	var order binary.ByteOrder = XDR
	if le {
		order = NDR
	}
	buf, err := Encode(g, order)
	vAssert(err == nil, "encode-succeeds")
	want := &vSer{}
	want.geom(le, g)
	vAssert(vSameBytes(buf, want.b), "bytes-equal-independent-ogc-serializer")
	g2, err := Decode(buf)
	vAssert(err == nil, "decode-succeeds")
	vAssert(vSameGeom(g, g2), "decode-encode-identity")
}

// vMixed: an encoding in which every nested element carries its own,
// independently chosen byte order decodes to the same geometry.
func vMixed(g geom.Geom) {
	mixed := &vSer{mixed: true}
	mixed.geom(true, g)
	g3, err := Decode(mixed.b)
	vAssert(err == nil, "mixed-order-decode-succeeds")
	vAssert(vSameGeom(g, g3), "mixed-order-decode-identity")
}

func VH_C05_point()      { vRoundTrip(vGeomOfKind(0, 0, 0, 0)); vReach("end") }
func VH_C05_linestring() { vRoundTrip(vGeomOfKind(1, 0, 0, vBound(2, 3))); vReach("end") }
func VH_C05_polygon()    { vRoundTrip(vGeomOfKind(2, 0, vBound(2, 3), vBound(2, 2))); vReach("end") }
func VH_C05_multipoint() { vRoundTrip(vGeomOfKind(3, 0, 0, vBound(2, 3))); vReach("end") }
func VH_C05_multilinestring() {
	vRoundTrip(vGeomOfKind(4, 0, vBound(2, 3), vBound(2, 2)))
	vReach("end")
}
func VH_C05_multipolygon() {
	vRoundTrip(vGeomOfKind(5, 0, vBound(2, 2), vBound(1, 2)))
	vReach("end")
}
func VH_C05_collection() {
	vRoundTrip(vGeomOfKind(6, 2, 2, 1))
	vReach("end")
}
func VH_C05_collection_depth3() {
	// collection of a collection of a collection (thorough)
	inner := geom.GeometryCollection{vGeomOfKind(vChoose(6), 0, 1, 1)}
	mid := geom.GeometryCollection{inner, vGeomOfKind(vChoose(6), 0, 1, 1)}
	vRoundTrip(geom.GeometryCollection{mid})
	vReach("end")
}

func VH_C05_mixed_flat() {
	vMixed(vGeomOfKind(vChoose(3), 0, 2, 2))
	vReach("end")
}
func VH_C05_mixed_multi() {
	vMixed(vGeomOfKind(3+vChoose(3), 0, 2, 1))
	vReach("end")
}
func VH_C05_mixed_collection() {
	vMixed(vGeomOfKind(6, 2, 2, 1))
	vReach("end")
}

// unsupported types are rejected, not mis-encoded
func VH_C05_unsupported() {
	_, err := Encode(&geom.Bounds{Min: vPt(), Max: vPt()}, NDR)
	vAssert(err != nil, "bounds-rejected")
	vReach("end")
}

// The point reader works in chunks of maxPrealloc points (a constant of the
// code under test): lengths around one and two chunk boundaries.
func VH_C05_linestring_chunks() {
	n := []int{maxPrealloc - 1, maxPrealloc, maxPrealloc + 1, 2*maxPrealloc + 1}[vChoose(4)]
	pts := make([]geom.Point, n)
	for i := range pts {
		// symbolic at both ends and around the chunk boundary, distinct constants elsewhere
		if i < 2 || i >= n-2 || (i >= maxPrealloc-2 && i <= maxPrealloc+1) {
			pts[i] = vPt()
		} else {
			pts[i] = geom.Point{X: float64(i), Y: float64(-i)}
		}
	}
	g := geom.GeometryCollection{geom.LineString(pts), vPt()}
	vRoundTrip(g)
	vReach("end")
}
