package hex

import "github.com/ctessum/geom"

// C07 (hex part): any string: a geometry or an error, never a panic.
func VH_C07_hex_arbitrary() {
	n := vChoose(vBound(9, 13))
	b := make([]byte, n)
	for i := range b {
		b[i] = vByte()
	}
	vInputLen(n)
	s := string(b)
	var g geom.Geom
	var err error
	if vCatch(func() { g, err = Decode(s) }) {
		vAssert(false, "hex-decode-panics")
		return
	}
	if err != nil {
		vAssert(g == nil, "error-with-geometry")
	} else {
		vAssert(g != nil, "nil-geometry-without-error")
	}
	vReach("end")
}
