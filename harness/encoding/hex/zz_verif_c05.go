package hex

import (
	"encoding/binary"

	"github.com/ctessum/geom"
	"github.com/ctessum/geom/encoding/wkb"
)

const vHexDigits = "0123456789abcdef"

// hex.Encode is the lower-case hexadecimal text of exactly the WKB bytes.
func VH_C05_hex_encode() {
	g := geom.LineString{{X: vFloat64(), Y: vFloat64()}, {X: vFloat64(), Y: vFloat64()}}
	var order binary.ByteOrder = wkb.XDR
	if vChoose(2) == 1 {
		order = wkb.NDR
	}
	s, err := Encode(g, order)
	vAssert(err == nil, "hex-encode-succeeds")
	b, err := wkb.Encode(g, order)
	vAssert(err == nil, "wkb-encode-succeeds")
	vAssert(len(s) == 2*len(b), "hex-length")
	ok := true
	for i := range b {
		ok = vAnd(ok, s[2*i] == vHexDigits[b[i]>>4], s[2*i+1] == vHexDigits[b[i]&15])
	}
	vAssert(ok, "hex-is-lowercase-hex-of-wkb")
	vReach("end")
}

func vSameBitsPts(a, b []geom.Point) bool {
	if len(a) != len(b) {
		return false
	}
	r := true
	for i := range a {
		r = vAnd(r, vSameBits(a[i].X, b[i].X), vSameBits(a[i].Y, b[i].Y))
	}
	return r
}

// hex.Decode(hex.Encode(g)) == g bit for bit.
func VH_C05_hex_roundtrip() {
	g := geom.LineString{{X: vFloat64(), Y: vFloat64()}}
	var order binary.ByteOrder = wkb.XDR
	if vChoose(2) == 1 {
		order = wkb.NDR
	}
	s, err := Encode(g, order)
	vAssert(err == nil, "hex-encode-succeeds")
	g2, err := Decode(s)
	if err != nil {
		vAssert(false, "hex-decode-fails: "+err.Error())
	}
	l2, ok := g2.(geom.LineString)
	vAssert(ok, "hex-decode-type")
	vAssert(vSameBitsPts(g, l2), "hex-roundtrip-identity")
	vReach("end")
}
