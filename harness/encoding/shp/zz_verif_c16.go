package shp

import (
	"github.com/ctessum/geom"
	goshp "github.com/jonas-p/go-shp"
)

// C16 (conversion layer): geometry -> go-shp shape -> geometry.

func vPt() geom.Point { return geom.Point{X: vFloat64(), Y: vFloat64()} }

func vPts(minN, maxN int) []geom.Point {
	n := minN + vChoose(maxN-minN+1)
	p := make([]geom.Point, n)
	for i := range p {
		p[i] = vPt()
	}
	return p
}

func vSame(a, b geom.Point) bool { return vAnd(vSameBits(a.X, b.X), vSameBits(a.Y, b.Y)) }

func vSamePts(a, b []geom.Point) bool {
	if len(a) != len(b) {
		return false
	}
	r := true
	for i := range a {
		r = vAnd(r, vSame(a[i], b[i]))
	}
	return r
}

func vRoundTrip(g geom.Geom) geom.Geom {
	s, err := geom2Shp(g)
	vAssert(err == nil, "geom2shp-succeeds")
	n, back, err := shp2Geom(7, s)
	vAssert(err == nil, "shp2geom-succeeds")
	vAssert(n == 7, "record-number-passed-through")
	return back
}

func vPartsConsistent(parts []int32, numParts, numPoints int32, points []goshp.Point, lens []int) {
	vAssert(int(numParts) == len(parts) && len(parts) == len(lens), "numparts-consistent")
	vAssert(int(numPoints) == len(points), "numpoints-consistent")
	off := 0
	for i := range parts {
		vAssert(int(parts[i]) == off, "part-offsets")
		if i > 0 {
			vAssert(parts[i] > parts[i-1], "parts-strictly-increasing")
		}
		off += lens[i]
	}
	vAssert(off == len(points), "parts-cover-all-points")
}

func VH_C16_point() {
	p := vPt()
	back := vRoundTrip(p)
	q, ok := back.(geom.Point)
	vAssert(ok, "point-type")
	vAssert(vSame(p, q), "point-identical")
	vReach("end")
}

func VH_C16_multipoint() {
	mp := geom.MultiPoint(vPts(1, vBound(3, 4)))
	back := vRoundTrip(mp)
	q, ok := back.(geom.MultiPoint)
	vAssert(ok, "multipoint-type")
	vAssert(vSamePts(mp, q), "multipoint-identical")
	vReach("end")
}

func VH_C16_linestring() {
	l := geom.LineString(vPts(1, vBound(3, 4)))
	back := vRoundTrip(l)
	q, ok := back.(geom.MultiLineString)
	vAssert(ok, "linestring-becomes-multilinestring")
	vAssert(len(q) == 1, "one-part")
	vAssert(vSamePts(l, q[0]), "linestring-part-identical")
	vReach("end")
}

func VH_C16_multilinestring() {
	n := 1 + vChoose(vBound(3, 3))
	ml := make(geom.MultiLineString, n)
	lens := make([]int, n)
	for i := range ml {
		ml[i] = geom.LineString(vPts(1, vBound(2, 3)))
		lens[i] = len(ml[i])
	}
	s, err := geom2Shp(ml)
	vAssert(err == nil, "geom2shp-succeeds")
	pl, ok := s.(*goshp.PolyLine)
	vAssert(ok, "polyline-shape")
	vPartsConsistent(pl.Parts, pl.NumParts, pl.NumPoints, pl.Points, lens)
	back := vRoundTrip(ml)
	q, ok := back.(geom.MultiLineString)
	vAssert(ok, "multilinestring-type")
	vAssert(len(q) == len(ml), "part-count")
	for i := range ml {
		vAssert(vSamePts(ml[i], q[i]), "part-identical")
	}
	vReach("end")
}

func VH_C16_polygon() {
	n := 1 + vChoose(vBound(2, 3))
	pg := make(geom.Polygon, n)
	for i := range pg {
		pg[i] = geom.Path(vPts(1, vBound(3, 3)))
	}
	// expected rings: vertex order preserved, unclosed rings closed
	want := make([][]geom.Point, n)
	lens := make([]int, n)
	for i, r := range pg {
		want[i] = append([]geom.Point{}, r...)
		if !(r[0].X == r[len(r)-1].X && r[0].Y == r[len(r)-1].Y) {
			want[i] = append(want[i], r[0])
		}
		lens[i] = len(want[i])
	}
	s, err := geom2Shp(pg)
	vAssert(err == nil, "geom2shp-succeeds")
	sp, ok := s.(*goshp.Polygon)
	vAssert(ok, "polygon-shape")
	vPartsConsistent(sp.Parts, sp.NumParts, sp.NumPoints, sp.Points, lens)
	back := vRoundTrip(pg)
	q, ok := back.(geom.Polygon)
	vAssert(ok, "polygon-type")
	vAssert(len(q) == n, "ring-count")
	for i := range want {
		vAssert(vSamePts(want[i], q[i]), "ring-identical-and-closed")
	}
	vReach("end")
}

func VH_C16_bounds() {
	b := &geom.Bounds{Min: vPt(), Max: vPt()}
	// a proper box (a zero-width or zero-height box has coinciding first and
	// last corners and is therefore written as it is)
	vAssume(vAnd(b.Min.X < b.Max.X, b.Min.Y < b.Max.Y))
	back := vRoundTrip(b)
	q, ok := back.(geom.Polygon)
	vAssert(ok, "bounds-becomes-polygon")
	vAssert(len(q) == 1, "one-ring")
	c := []geom.Point{b.Min, {X: b.Max.X, Y: b.Min.Y}, b.Max, {X: b.Min.X, Y: b.Max.Y}, b.Min}
	vAssert(vSamePts(c, q[0]), "box-five-vertex-rectangle")
	vReach("end")
}

func VH_C16_nil_and_unsupported() {
	s, err := geom2Shp(nil)
	vAssert(err == nil, "nil-geom2shp")
	_, isNull := s.(*goshp.Null)
	vAssert(isNull, "nil-becomes-null-shape")
	_, back, err := shp2Geom(0, s)
	vAssert(err == nil && back == nil, "null-becomes-nil")
	_, err = geom2Shp(geom.GeometryCollection{vPt()})
	vAssert(err != nil, "collection-rejected")
	_, err = geom2Shp(geom.MultiPolygon{{{vPt()}}})
	vAssert(err != nil, "multipolygon-rejected")
	vReach("end")
}
