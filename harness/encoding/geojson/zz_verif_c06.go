package geojson

import (
	"math"

	"github.com/ctessum/geom"
)

func vFinite() float64 {
	f := vFloat64()
	vAssume(vAnd(!math.IsNaN(f), !math.IsInf(f, 0)))
	return f
}

func vPts(minN, maxN int) []geom.Point {
	n := minN + vChoose(maxN-minN+1)
	p := make([]geom.Point, n)
	for i := range p {
		p[i] = geom.Point{X: vFinite(), Y: vFinite()}
	}
	return p
}

// first member has at least one vertex; later members may be empty
func vPaths(maxR, maxV int) []geom.Path {
	n := 1 + vChoose(maxR)
	r := make([]geom.Path, n)
	for i := range r {
		lo := 0
		if i == 0 {
			lo = 1
		}
		r[i] = geom.Path(vPts(lo, maxV))
	}
	return r
}

func vGeomKind(k, maxM, maxV int) geom.Geom {
	switch k {
	case 0:
		return geom.Point{X: vFinite(), Y: vFinite()}
	case 1:
		return geom.MultiPoint(vPts(1, maxV))
	case 2:
		return geom.LineString(vPts(1, maxV))
	case 3:
		ps := vPaths(maxM, maxV)
		ml := make(geom.MultiLineString, len(ps))
		for i := range ps {
			ml[i] = geom.LineString(ps[i])
		}
		return ml
	case 4:
		return geom.Polygon(vPaths(maxM, maxV))
	default:
		n := 1 + vChoose(maxM)
		mp := make(geom.MultiPolygon, n)
		for i := range mp {
			if i == 0 {
				mp[i] = geom.Polygon(vPaths(maxM, maxV))
			} else {
				k := vChoose(maxM + 1)
				mp[i] = make(geom.Polygon, k)
				for j := range mp[i] {
					mp[i][j] = geom.Path(vPts(0, maxV))
				}
			}
		}
		return mp
	}
}

var vTypeNames = []string{"Point", "MultiPoint", "LineString", "MultiLineString", "Polygon", "MultiPolygon"}

func vSamePts(a, b []geom.Point) bool {
	if len(a) != len(b) {
		return false
	}
	r := true
	for i := range a {
		r = vAnd(r, vSameBits(a[i].X, b[i].X), vSameBits(a[i].Y, b[i].Y))
	}
	return r
}

func vSamePaths(a, b []geom.Path) bool {
	if len(a) != len(b) {
		return false
	}
	r := true
	for i := range a {
		r = vAnd(r, vSamePts(a[i], b[i]))
	}
	return r
}

func vSameGeom(a, b geom.Geom) bool {
	switch x := a.(type) {
	case geom.Point:
		y, ok := b.(geom.Point)
		return ok && vAnd(vSameBits(x.X, y.X), vSameBits(x.Y, y.Y))
	case geom.MultiPoint:
		y, ok := b.(geom.MultiPoint)
		return ok && vSamePts(x, y)
	case geom.LineString:
		y, ok := b.(geom.LineString)
		return ok && vSamePts(x, y)
	case geom.Polygon:
		y, ok := b.(geom.Polygon)
		return ok && vSamePaths(x, y)
	case geom.MultiLineString:
		y, ok := b.(geom.MultiLineString)
		if !ok || len(x) != len(y) {
			return false
		}
		r := true
		for i := range x {
			r = vAnd(r, vSamePts(x[i], y[i]))
		}
		return r
	case geom.MultiPolygon:
		y, ok := b.(geom.MultiPolygon)
		if !ok || len(x) != len(y) {
			return false
		}
		r := true
		for i := range x {
			r = vAnd(r, vSamePaths(x[i], y[i]))
		}
		return r
	}
	return false
}

// nesting of the coordinates member: [x,y] innermost, one array level per
// level of the geometry type
func vXY(c []float64, p geom.Point) bool {
	return len(c) == 2 && vAnd(vSameBits(c[0], p.X), vSameBits(c[1], p.Y))
}
func vXYs(c [][]float64, p []geom.Point) bool {
	if len(c) != len(p) {
		return false
	}
	r := true
	for i := range c {
		r = vAnd(r, vXY(c[i], p[i]))
	}
	return r
}
func vXYss(c [][][]float64, p []geom.Path) bool {
	if len(c) != len(p) {
		return false
	}
	r := true
	for i := range c {
		r = vAnd(r, vXYs(c[i], p[i]))
	}
	return r
}

func vNesting(gj *Geometry, g geom.Geom) bool {
	switch t := g.(type) {
	case geom.Point:
		c, ok := gj.Coordinates.([]float64)
		return ok && vXY(c, t)
	case geom.MultiPoint:
		c, ok := gj.Coordinates.([][]float64)
		return ok && vXYs(c, t)
	case geom.LineString:
		c, ok := gj.Coordinates.([][]float64)
		return ok && vXYs(c, t)
	case geom.MultiLineString:
		c, ok := gj.Coordinates.([][][]float64)
		if !ok || len(c) != len(t) {
			return false
		}
		r := true
		for i := range c {
			r = vAnd(r, vXYs(c[i], t[i]))
		}
		return r
	case geom.Polygon:
		c, ok := gj.Coordinates.([][][]float64)
		return ok && vXYss(c, t)
	case geom.MultiPolygon:
		c, ok := gj.Coordinates.([][][][]float64)
		if !ok || len(c) != len(t) {
			return false
		}
		r := true
		for i := range c {
			r = vAnd(r, vXYss(c[i], t[i]))
		}
		return r
	}
	return false
}

func vCheckGeoJSON(k int, g geom.Geom) {
	gj, err := ToGeoJSON(g)
	vAssert(err == nil, "togeojson-succeeds")
	vAssert(gj.Type == vTypeNames[k], "rfc7946-type-name")
	vAssert(vNesting(gj, g), "coordinates-nesting-xy")
	b, err := Encode(g)
	vAssert(err == nil, "encode-succeeds-for-finite")
	g2, err := Decode(b)
	vAssert(err == nil, "decode-succeeds")
	vAssert(vSameGeom(g, g2), "decode-encode-identity")
}

func VH_C06_point()           { vCheckGeoJSON(0, vGeomKind(0, 0, 0)); vReach("end") }
func VH_C06_multipoint()      { vCheckGeoJSON(1, vGeomKind(1, 0, vBound(3, 4))); vReach("end") }
func VH_C06_linestring()      { vCheckGeoJSON(2, vGeomKind(2, 0, vBound(3, 4))); vReach("end") }
func VH_C06_multilinestring() { vCheckGeoJSON(3, vGeomKind(3, vBound(2, 3), vBound(2, 3))); vReach("end") }
func VH_C06_polygon()         { vCheckGeoJSON(4, vGeomKind(4, vBound(2, 3), vBound(2, 3))); vReach("end") }
func VH_C06_multipolygon()    { vCheckGeoJSON(5, vGeomKind(5, 2, vBound(2, 2))); vReach("end") }

// a non-finite coordinate makes Encode fail
func VH_C06_nonfinite() {
	k := vChoose(3)
	var g geom.Geom
	f := vFloat64()
	vAssume(vOr(math.IsNaN(f), math.IsInf(f, 0)))
	switch k {
	case 0:
		g = geom.Point{X: f, Y: vFinite()}
	case 1:
		g = geom.LineString{{X: vFinite(), Y: vFinite()}, {X: vFinite(), Y: f}}
	default:
		g = geom.Polygon{{{X: vFinite(), Y: vFinite()}}, {{X: f, Y: vFinite()}}}
	}
	_, err := Encode(g)
	vAssert(err != nil, "nonfinite-rejected")
	vReach("end")
}

// unsupported types are reported as errors
func VH_C06_unsupported() {
	var g geom.Geom
	if vChoose(2) == 0 {
		g = geom.GeometryCollection{geom.Point{X: vFinite(), Y: vFinite()}}
	} else {
		g = &geom.Bounds{Min: geom.Point{X: vFinite(), Y: vFinite()}, Max: geom.Point{X: vFinite(), Y: vFinite()}}
	}
	gj, err := ToGeoJSON(g)
	vAssert(gj == nil, "unsupported-no-geometry")
	_, isUnsupported := err.(*UnsupportedGeometryError)
	vAssert(isUnsupported, "unsupported-error-type")
	_, err = Encode(g)
	vAssert(err != nil, "unsupported-encode-error")
	vReach("end")
}
