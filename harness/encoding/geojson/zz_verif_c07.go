package geojson

import "github.com/ctessum/geom"

// C07 (GeoJSON part): FromGeoJSON is total on arbitrary Geometry values.

var vC07Types = []string{"Point", "MultiPoint", "LineString", "MultiLineString", "Polygon", "MultiPolygon", "GeometryCollection", "Bogus"}

// vTree builds an arbitrary generic JSON value of bounded depth and width.
func vTree(depth, width int) interface{} {
	k := 5
	if depth > 0 {
		k = 6
	}
	switch vChoose(k) {
	case 0:
		return vFloat64()
	case 1:
		return "s"
	case 2:
		return nil
	case 3:
		return vBool()
	case 4:
		return map[string]interface{}{}
	default:
		n := vChoose(width + 1)
		a := make([]interface{}, n)
		for i := range a {
			a[i] = vTree(depth-1, width)
		}
		return a
	}
}

func vCheckTotal(t string, coords interface{}) {
	gj := &Geometry{Type: t, Coordinates: coords}
	var g geom.Geom
	var err error
	if vCatch(func() { g, err = FromGeoJSON(gj) }) {
		vAssert(false, "fromgeojson-panics")
		return
	}
	if err != nil {
		vAssert(g == nil, "error-with-geometry")
		return
	}
	vAssert(g != nil, "nil-geometry-without-error")
	gj2, err := ToGeoJSON(g)
	vAssert(err == nil, "reencode-succeeds")
	vAssert(gj2.Type == t, "reencode-same-type")
	var g2 geom.Geom
	if vCatch(func() { g2, err = FromGeoJSON(vGeneric(gj2)) }) {
		vAssert(false, "redecode-panics")
		return
	}
	vAssert(err == nil, "redecode-succeeds")
	vAssert(vSameGeom(g, g2), "decode-encode-decode-stable")
}

// vGeneric converts the typed coordinates produced by ToGeoJSON into the
// generic form a JSON round trip would give.
func vGeneric(gj *Geometry) *Geometry {
	return &Geometry{Type: gj.Type, Coordinates: vGen(gj.Coordinates)}
}

func vGen(v interface{}) interface{} {
	switch t := v.(type) {
	case []float64:
		o := make([]interface{}, len(t))
		for i := range t {
			o[i] = t[i]
		}
		return o
	case [][]float64:
		o := make([]interface{}, len(t))
		for i := range t {
			o[i] = vGen(t[i])
		}
		return o
	case [][][]float64:
		o := make([]interface{}, len(t))
		for i := range t {
			o[i] = vGen(t[i])
		}
		return o
	case [][][][]float64:
		o := make([]interface{}, len(t))
		for i := range t {
			o[i] = vGen(t[i])
		}
		return o
	}
	return v
}

func VH_C07_json_arbitrary() {
	t := vC07Types[vChoose(len(vC07Types))]
	vCheckTotal(t, vTree(vBound(2, 2), vBound(2, 3)))
	vReach("end")
}

// vNested builds the correct nesting for depth levels with widths 1..2, and
// replaces the node selected by the countdown *at with an arbitrary small tree
// (or a coordinate tuple of the wrong arity).
func vNested(levels int, at *int) interface{} {
	*at--
	if *at == 0 {
		return vTree(1, 2)
	}
	if levels == 0 {
		n := 2
		if *at == -1000 {
			n = 2
		}
		a := make([]interface{}, n)
		for i := range a {
			a[i] = vFloat64()
		}
		return a
	}
	n := 1 + vChoose(2)
	a := make([]interface{}, n)
	for i := range a {
		a[i] = vNested(levels-1, at)
	}
	return a
}

func VH_C07_json_mutated() {
	k := vChoose(6)
	levels := []int{0, 1, 1, 2, 2, 3}[k]
	at := vChoose(vBound(8, 16)) // 0 = no mutation
	if at == 0 {
		at = -1
	}
	vCheckTotal(vC07Types[k], vNested(levels, &at))
	vReach("end")
}

// coordinate tuples of the wrong arity (1 or 3 numbers)
func VH_C07_json_arity() {
	k := vChoose(6)
	levels := []int{0, 1, 1, 2, 2, 3}[k]
	n := 1 + 2*vChoose(2)
	var build func(l int, first bool) interface{}
	build = func(l int, first bool) interface{} {
		if l == 0 {
			m := 2
			if !first || vChoose(2) == 1 {
				m = n
			}
			a := make([]interface{}, m)
			for i := range a {
				a[i] = vFloat64()
			}
			return a
		}
		w := 1 + vChoose(2)
		a := make([]interface{}, w)
		for i := range a {
			a[i] = build(l-1, first && i == 0)
		}
		return a
	}
	vCheckTotal(vC07Types[k], build(levels, true))
	vReach("end")
}
