package route

import (
	"github.com/ctessum/geom"
)

// C19: ShortestRoute on small fixed topologies. Node positions are concrete;
// every link is an axis-aligned staircase whose riser height is a symbolic
// grid value, so that its length (1 + 2h, or span + 2h) is exact; speeds are
// powers of two (exact division).

type vLink struct {
	a, b  int // node indices
	h     float64
	speed float64
	line  geom.LineString
	len   float64
}

// vStair builds a link from p to q (same Y, or same X) that goes up by h, across, and
// down again: length = |q.X-p.X| + 2h exactly.
func vStair(p, q geom.Point, h float64) geom.LineString {
	if p.X == q.X {
		// a vertical link steps sideways instead
		return geom.LineString{p, {X: p.X + h, Y: p.Y}, {X: q.X + h, Y: q.Y}, q}
	}
	return geom.LineString{p, {X: p.X, Y: p.Y + h}, {X: q.X, Y: q.Y + h}, q}
}

var vSpeeds = []float64{1, 2, 4, 8}

// vNet builds a network over concrete node positions with the given links.
func vNet(m MinimizeOption, pos []geom.Point, pairs [][2]int, w, sc int) (*Network, []*vLink) {
	net := NewNetwork(m)
	var links []*vLink
	for _, pr := range pairs {
		h := vGrid(w, sc)
		vAssume(h >= 0)
		sp := vSpeeds[vChoose(vBound(2, 4))]
		p, q := pos[pr[0]], pos[pr[1]]
		l := &vLink{a: pr[0], b: pr[1], h: h, speed: sp, line: vStair(p, q, h)}
		dx := q.X - p.X
		if dx < 0 {
			dx = -dx
		}
		dy := q.Y - p.Y
		if dy < 0 {
			dy = -dy
		}
		l.len = dx + dy + 2*h
		net.AddLink(l.line, sp)
		links = append(links, l)
	}
	return net, links
}

// all simple paths from s to t as sequences of link indices
func vSimplePaths(n int, links []*vLink, s, t int) [][]int {
	var out [][]int
	visited := make([]bool, n)
	var cur []int
	var rec func(u int)
	rec = func(u int) {
		if u == t {
			out = append(out, append([]int{}, cur...))
			return
		}
		visited[u] = true
		for i, l := range links {
			v := -1
			if l.a == u {
				v = l.b
			} else if l.b == u {
				v = l.a
			}
			if v >= 0 && !visited[v] {
				cur = append(cur, i)
				rec(v)
				cur = cur[:len(cur)-1]
			}
		}
		visited[u] = false
	}
	rec(s)
	return out
}

func vCheckRoute(m MinimizeOption, pos []geom.Point, pairs [][2]int, s, t int) {
	vCheckRouteGrid(m, pos, pairs, s, t, 3, 0)
}

func vCheckRouteGrid(m MinimizeOption, pos []geom.Point, pairs [][2]int, s, t int, w, sc int) {
	net, links := vNet(m, pos, pairs, w, sc)
	var route geom.MultiLineString
	var dist, tm float64
	if vCatch(func() { route, dist, tm, _, _ = net.ShortestRoute(pos[s], pos[t]) }) {
		vAssert(false, "shortestroute-panics")
		return
	}
	paths := vSimplePaths(len(pos), links, s, t)
	if len(paths) == 0 {
		vAssert(len(route) == 0, "route-empty-when-not-connected")
		return
	}
	if s != t {
		vAssert(len(route) > 0, "route-found-when-connected")
	}
	// reported totals are the sums over the returned links, which form a chain from s to t
	sumD, sumT := 0., 0.
	at := pos[s]
	for _, seg := range route {
		var l *vLink
		for _, c := range links {
			if len(seg) == len(c.line) && seg[0] == c.line[0] && seg[len(seg)-1] == c.line[len(c.line)-1] {
				l = c
			}
		}
		vAssert(l != nil, "route-link-is-a-network-link")
		if l == nil {
			return
		}
		a, b := seg[0], seg[len(seg)-1]
		if a == at {
			at = b
		} else {
			vAssert(b == at, "consecutive-links-share-a-node")
			at = a
		}
		sumD += l.len
		sumT += l.len / l.speed
	}
	vAssert(at == pos[t], "route-ends-at-target-node")
	vAssert(dist == sumD, "reported-distance-is-sum-of-links")
	vAssert(tm == sumT, "reported-time-is-sum-of-links")
	// minimal over all simple paths
	for _, p := range paths {
		c := 0.
		for _, i := range p {
			if m == Distance {
				c += links[i].len
			} else {
				c += links[i].len / links[i].speed
			}
		}
		if m == Distance {
			vAssert(dist <= c, "no-shorter-path-exists")
		} else {
			vAssert(tm <= c, "no-faster-path-exists")
		}
	}
}

var vNodePos = []geom.Point{{X: 0, Y: 0}, {X: 4, Y: 0}, {X: 8, Y: 0}, {X: 4, Y: 16}}

func vOpt() MinimizeOption {
	if vChoose(2) == 0 {
		return Distance
	}
	return Time
}

// chain 0-1-2: a single path
func VH_C19_chain() {
	vCheckRoute(vOpt(), vNodePos[:3], [][2]int{{0, 1}, {1, 2}}, 0, 2)
	vReach("end")
}

// triangle 0-1-2 plus the direct link 0-2: one hop against two hops
func VH_C19_triangle() {
	vCheckRoute(vOpt(), vNodePos[:3], [][2]int{{0, 1}, {1, 2}, {0, 2}}, 0, 2)
	vReach("end")
}

// a rectangle S-M-N-T with the direct link S-T: the alternative to the direct
// link first moves away from the target, so an over-estimating heuristic makes
// A* settle for the direct link. Links are added fastest-candidate first or last.
func VH_C19_detour() {
	// 7-24-25 triangles: every straight-line distance the heuristic computes is
	// an integer, so the whole search stays in the exact domain
	pos := []geom.Point{{X: 0, Y: 0}, {X: 24, Y: 0}, {X: 0, Y: 7}, {X: 24, Y: 7}}
	pairs := [][2]int{{2, 3}, {0, 2}, {3, 1}, {0, 1}}
	if vChoose(2) == 1 {
		pairs = [][2]int{{0, 1}, {3, 1}, {0, 2}, {2, 3}}
	}
	// riser heights in half units (0 .. 3.5): still exact
	vCheckRouteGrid(vOpt(), pos, pairs, 0, 1, 4, 1)
	vReach("end")
}

// two components: no route
func VH_C19_disconnected() {
	pos := []geom.Point{{X: 0, Y: 0}, {X: 4, Y: 0}, {X: 8, Y: 32}, {X: 12, Y: 32}}
	vCheckRoute(vOpt(), pos, [][2]int{{0, 1}, {2, 3}}, 0, 3)
	vReach("end")
}
