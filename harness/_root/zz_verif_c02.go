package geom

// C02: Point.Within against an independent exact classifier on a dyadic grid.

func vGridPt(w, s int) Point { return Point{X: vGrid(w, s), Y: vGrid(w, s)} }

func vGridPath(minN, maxN, w, s int) Path {
	n := minN + vChoose(maxN-minN+1)
	p := make(Path, n)
	for i := range p {
		p[i] = vGridPt(w, s)
	}
	return p
}

// cross product (b-a) x (p-a): exact on the grid.
func vCross(a, b, p Point) float64 { return (b.X-a.X)*(p.Y-a.Y) - (b.Y-a.Y)*(p.X-a.X) }

func vOnSeg(p, a, b Point) bool {
	return vAnd(vCross(a, b, p) == 0,
		vOr(a.X <= p.X, b.X <= p.X), vOr(p.X <= a.X, p.X <= b.X),
		vOr(a.Y <= p.Y, b.Y <= p.Y), vOr(p.Y <= a.Y, p.Y <= b.Y))
}

// what pointOnSegment computes: the geometric predicate, except that the
// first endpoint of a non-vertical segment is missed (0/0 slope).
func vOnSegCode(p, a, b Point) bool {
	return vAnd(vOnSeg(p, a, b), vOr(!vAnd(p.X == a.X, p.Y == a.Y), a.X == b.X))
}

// half-open crossing rule for a ray towards +X: the segment straddles the
// ray's height and the crossing point lies strictly to the right of p.
func vCrosses(p, a, b Point) bool {
	straddle := (a.Y <= p.Y) != (b.Y <= p.Y)
	c := vCross(a, b, p)
	left := vIteB(b.Y > a.Y, c > 0, c < 0)
	return vAnd(straddle, left)
}

func vWithinOracle(p Point, polys []Polygon) (onEdge, inside bool) {
	for _, poly := range polys {
		for _, r := range poly {
			n := len(r)
			if n < 3 {
				continue
			}
			for i := 0; i < n; i++ {
				a, b := r[i], r[(i+1)%n]
				on, cr := vOnSeg(p, a, b), vCrosses(p, a, b)
				// kernel lemmas (proved for all grid points by the kernel harnesses)
				// bridge the real kernels' terms and the oracle's
				vLemma(pointOnSegment(p, a, b) == vOnSegCode(p, a, b), "VH_C02_kernel_onsegment")
				vLemma(vImplies(!on, rayIntersectsSegment(p, a, b) == cr), "VH_C02_kernel_ray")
				onEdge = vOr(onEdge, on)
				inside = inside != cr
			}
		}
	}
	return
}

func vCheckWithin(p Point, pg Polygonal) {
	got := p.Within(pg)
	onEdge, inside := vWithinOracle(p, pg.Polygons())
	vAssert(vIteB(onEdge, got == OnEdge, vIteB(inside, got == Inside, got == Outside)), "within-equals-exact-classifier")
}

func VH_C02_kernel_onsegment() {
	w := vBound(4, 5)
	p, a, b := vGridPt(w, 1), vGridPt(w, 1), vGridPt(w, 1)
	vAssert(pointOnSegment(p, a, b) == vOnSegCode(p, a, b), "pointOnSegment-equals-spec")
	vReach("end")
}

func VH_C02_kernel_ray() {
	w := vBound(4, 5)
	p, a, b := vGridPt(w, 1), vGridPt(w, 1), vGridPt(w, 1)
	vAssume(!vOnSeg(p, a, b))
	vAssert(rayIntersectsSegment(p, a, b) == vCrosses(p, a, b), "rayIntersectsSegment-equals-half-open-crossing")
	vReach("end")
}

func VH_C02_polygon_1ring() {
	w := vBound(3, 4)
	pg := Polygon{vGridPath(0, vBound(4, 5), w, 1)}
	vCheckWithin(vGridPt(w, 1), pg)
	vReach("end")
}

func VH_C02_polygon_2rings() {
	w := vBound(3, 3)
	pg := Polygon{vGridPath(3, vBound(3, 4), w, 1), vGridPath(2, vBound(3, 4), w, 1)}
	vCheckWithin(vGridPt(w, 1), pg)
	vReach("end")
}

func VH_C02_multipolygon() {
	w := vBound(3, 3)
	mp := MultiPolygon{{vGridPath(3, vBound(3, 4), w, 1)}, {vGridPath(3, 3, w, 1)}}
	vCheckWithin(vGridPt(w, 1), mp)
	vReach("end")
}

func VH_C02_bounds() {
	w := vBound(3, 4)
	b := &Bounds{Min: vGridPt(w, 1), Max: vGridPt(w, 1)}
	vAssume(vAnd(b.Min.X <= b.Max.X, b.Min.Y <= b.Max.Y))
	vCheckWithin(vGridPt(w, 1), b)
	vReach("end")
}

// Other receivers: Outside exactly when at least one vertex is Outside.
// The status of each vertex is taken from the exact classifier (shown equal
// to Point.Within by the harnesses above), so that only the receiver's own
// code is executed here.
func vCheckReceiver(r Withiner, verts []Point, pg Polygonal) {
	anyOut := false
	for _, v := range verts {
		onEdge, inside := vWithinOracle(v, pg.Polygons())
		anyOut = vOr(anyOut, vAnd(!onEdge, !inside))
	}
	got := r.Within(pg)
	vAssert((got == Outside) == anyOut, "receiver-outside-iff-some-vertex-outside")
}

func VH_C02_receivers() {
	w := 3
	nv := vBound(1, 2)
	pg := Polygon{vGridPath(3, 3, w, 1)}
	switch vChoose(4) {
	case 0:
		mp := MultiPoint(vGridPath(0, nv, w, 1))
		vCheckReceiver(mp, mp, pg)
	case 1:
		l := LineString(vGridPath(0, nv, w, 1))
		vCheckReceiver(l, l, pg)
	case 2:
		ml := MultiLineString{LineString(vGridPath(0, 1, w, 1)), LineString(vGridPath(nv-1, nv-1, w, 1))}
		vCheckReceiver(ml, vFlatten(ml), pg)
	default:
		p := Polygon{vGridPath(0, nv, w, 1)}
		vCheckReceiver(p, vFlatten(p), pg)
	}
	vReach("end")
}
