package geom

import (
	"github.com/ctessum/polyclip-go"
)

// C01 / C14 (wrapper layer): what ctessum/geom itself does around the
// polyclip sweep. polyclip.Polygon.Construct is hooked (overlay copy of the
// dependency's geom.go): with the hook set, the harness sees exactly what is
// sent to the clipper and decides what comes back; with the hook off, the
// real clipper runs (trivial cases only: empty or bounding-box-disjoint
// operands, where the sweep is never reached).

type vCall struct {
	subject, clipping polyclip.Polygon
	op                polyclip.Op
	n                 int
}

func vHookConstruct(rec *vCall, result polyclip.Polygon) {
	polyclip.VHook_Construct = func(p polyclip.Polygon, op polyclip.Op, clipping polyclip.Polygon) polyclip.Polygon {
		rec.subject, rec.op, rec.clipping = p, op, clipping
		rec.n++
		return result
	}
}

func vPolygonal(k int) Polygonal {
	switch k {
	case 0:
		return Polygon(vPolygonAny(2, 2))
	case 1:
		return MultiPolygon{vPolygonAny(1, 2), vPolygonAny(1, 1)}
	default:
		b := &Bounds{Min: vFloatOrdPt(), Max: vFloatOrdPt()}
		vAssume(vAnd(b.Min.X < b.Max.X, b.Min.Y < b.Max.Y))
		return b
	}
}

func vFloatOrdPt() Point { return Point{X: vFloatOrd(), Y: vFloatOrd()} }

func vPolygonAny(maxR, maxV int) Polygon {
	n := 1 + vChoose(maxR)
	p := make(Polygon, n)
	for i := range p {
		m := vChoose(maxV + 1)
		p[i] = make(Path, m)
		for j := range p[i] {
			p[i][j] = vFloatOrdPt()
		}
	}
	return p
}

// all rings of all member polygons, in order
func vAllRings(pg Polygonal) []Path {
	var out []Path
	for _, p := range pg.Polygons() {
		out = append(out, p...)
	}
	return out
}

func vSameContours(c polyclip.Polygon, rings []Path) bool {
	if len(c) != len(rings) {
		return false
	}
	r := true
	for i := range c {
		if len(c[i]) != len(rings[i]) {
			return false
		}
		for j := range c[i] {
			r = vAnd(r, vSameBits(c[i][j].X, rings[i][j].X), vSameBits(c[i][j].Y, rings[i][j].Y))
		}
	}
	return r
}

func vCannedResult() polyclip.Polygon {
	n := vChoose(3)
	out := make(polyclip.Polygon, n)
	for i := range out {
		m := vChoose(4)
		out[i] = make(polyclip.Contour, m)
		for j := range out[i] {
			out[i][j] = polyclip.Point{X: vFloatOrd(), Y: vFloatOrd()}
		}
	}
	return out
}

func vDoOp(a Polygonal, b Polygonal, op int) Polygonal {
	switch op {
	case 0:
		return a.Intersection(b)
	case 1:
		return a.Union(b)
	case 2:
		return a.Difference(b)
	default:
		return a.XOr(b)
	}
}

var vOps = []polyclip.Op{polyclip.INTERSECTION, polyclip.UNION, polyclip.DIFFERENCE, polyclip.XOR}

// (1) marshalling: everything the operands contain reaches the clipper, with
// the right operation, and everything the clipper returns comes back, closed.
func VH_C01_marshalling() {
	ka, kb, op := vChoose(3), vChoose(3), vChoose(4)
	a, b := vPolygonal(ka), vPolygonal(kb)
	rec := &vCall{}
	canned := vCannedResult()
	vHookConstruct(rec, canned)
	var res Polygonal
	if vCatch(func() { res = vDoOp(a, b, op) }) {
		vAssert(false, "operation-panics")
		return
	}
	polyclip.VHook_Construct = nil
	if rec.n == 0 {
		// a *Bounds shortcut answered without the clipper (checked pointwise below)
		_, isBounds := a.(*Bounds)
		vAssert(isBounds && op == 0, "only-bounds-intersection-may-skip-the-clipper")
		vReach("end")
		return
	}
	vAssert(rec.n == 1, "clipper-called-once")
	want := vOps[op]
	if op == 3 && (len(rec.subject) == 0 || len(rec.clipping) == 0 || !rec.subject.BoundingBox().Overlaps(rec.clipping.BoundingBox())) {
		// XOR of operands the clipper answers without sweeping is requested as
		// their union (pointwise correctness: VH_C01_trivial_*)
		want = polyclip.UNION
	}
	vAssert(rec.op == want, "operation-constant")
	vAssert(vSameContours(rec.subject, vAllRings(a)), "all-receiver-rings-sent-in-order")
	vAssert(vSameContours(rec.clipping, vAllRings(b)), "all-argument-rings-sent-in-order")
	out, ok := res.(Polygon)
	vAssert(ok, "result-is-polygon")
	vAssert(len(out) == len(canned), "every-result-contour-returned")
	for i := range canned {
		n := len(canned[i])
		vAssert(len(out[i]) == n+1, "ring-closed-with-one-extra-vertex")
		for j := 0; j < n; j++ {
			vAssert(vAnd(vSameBits(out[i][j].X, canned[i][j].X), vSameBits(out[i][j].Y, canned[i][j].Y)), "contour-vertices-returned-in-order")
		}
		if n > 0 {
			vAssert(vSamePt(out[i][n], out[i][0]), "first-vertex-repeated-last")
		}
	}
	vReach("end")
}

// (2) *Bounds.Intersection shortcuts, pointwise: z is any point off both
// boundaries; inP is "z lies in p", constrained only by: inside p implies
// inside p's bounding box (computed by the real Bounds()).
func VH_C01_bounds_shortcuts() {
	b := vPolygonal(2).(*Bounds)
	p := vPolygonal(vChoose(2))
	z := vFloatOrdPt()
	inP := vBool()
	pb := p.Bounds()
	vAssume(vImplies(inP, vAnd(pb.Min.X <= z.X, z.X <= pb.Max.X, pb.Min.Y <= z.Y, z.Y <= pb.Max.Y)))
	// z is not on b's boundary
	vAssume(vAnd(z.X != b.Min.X, z.X != b.Max.X, z.Y != b.Min.Y, z.Y != b.Max.Y))
	inB := vAnd(b.Min.X < z.X, z.X < b.Max.X, b.Min.Y < z.Y, z.Y < b.Max.Y)
	rec := &vCall{}
	vHookConstruct(rec, polyclip.Polygon{})
	res := b.Intersection(p)
	polyclip.VHook_Construct = nil
	switch {
	case rec.n > 0:
		// delegated to the clipper with the box as a four-vertex ring
		vAssert(len(rec.subject) == 1 && len(rec.subject[0]) == 4, "box-sent-as-rectangle")
		vAssert(vSameContours(rec.clipping, vAllRings(p)), "argument-rings-sent")
	case res == nil:
		vAssert(!vAnd(inB, inP), "nil-only-if-no-common-point")
	default:
		// the argument itself was returned: every point of p must be in b
		vAssert(vImplies(inP, inB), "argument-returned-only-if-inside-the-box")
	}
	vReach("end")
}

// (2b) box ∩ box is answered without the clipper: pointwise, for any point z
// off both boundaries, z is in the result iff it is in both boxes; an empty
// result is nil and a non-nil result has area.
func VH_C01_bounds_bounds() {
	a := vPolygonal(2).(*Bounds)
	b := vPolygonal(2).(*Bounds)
	z := vFloatOrdPt()
	vAssume(vAnd(z.X != a.Min.X, z.X != a.Max.X, z.Y != a.Min.Y, z.Y != a.Max.Y))
	vAssume(vAnd(z.X != b.Min.X, z.X != b.Max.X, z.Y != b.Min.Y, z.Y != b.Max.Y))
	inA := vAnd(a.Min.X < z.X, z.X < a.Max.X, a.Min.Y < z.Y, z.Y < a.Max.Y)
	inB := vAnd(b.Min.X < z.X, z.X < b.Max.X, b.Min.Y < z.Y, z.Y < b.Max.Y)
	rec := &vCall{}
	vHookConstruct(rec, polyclip.Polygon{})
	res := a.Intersection(b)
	polyclip.VHook_Construct = nil
	if rec.n > 0 {
		vAssert(len(rec.subject) == 1 && len(rec.subject[0]) == 4 && len(rec.clipping) == 1 && len(rec.clipping[0]) == 4, "boxes-sent-as-rectangles")
		vReach("end")
		return
	}
	if res == nil {
		vAssert(!vAnd(inA, inB), "nil-only-if-no-common-point")
	} else {
		r, ok := res.(*Bounds)
		vAssert(ok, "box-result-is-bounds")
		vAssert(vAnd(r.Min.X < r.Max.X, r.Min.Y < r.Max.Y), "non-nil-result-has-area")
		inR := vAnd(r.Min.X < z.X, z.X < r.Max.X, r.Min.Y < z.Y, z.Y < r.Max.Y)
		onR := vOr(z.X == r.Min.X, z.X == r.Max.X, z.Y == r.Min.Y, z.Y == r.Max.Y)
		vAssert(!onR, "result-boundary-within-operand-boundaries")
		vAssert(inR == vAnd(inA, inB), "point-in-result-iff-in-both")
	}
	vReach("end")
}

// (3) the real clipper on operands it answers without sweeping: one operand
// without rings, or bounding boxes that do not overlap. The true result is
// known: A∩B = ∅, A∪B = A+B, A−B = A, A xor B = A+B.
func vClosed(rings []Path) []Path {
	out := make([]Path, len(rings))
	for i, r := range rings {
		out[i] = append(append(Path{}, r...), Path{}...)
		if len(r) > 0 {
			out[i] = append(out[i], r[0])
		} else {
			out[i] = append(out[i], Point{})
		}
	}
	return out
}

func vSameRings(a Polygon, b []Path) bool {
	if len(a) != len(b) {
		return false
	}
	r := true
	for i := range a {
		if len(a[i]) != len(b[i]) {
			return false
		}
		for j := range a[i] {
			r = vAnd(r, vSamePt(a[i][j], b[i][j]))
		}
	}
	return r
}

func VH_C01_trivial_disjoint() {
	a := Polygon{vTri()}
	b := Polygon{vTri()}
	// bounding boxes separated along x
	for _, p := range a[0] {
		for _, q := range b[0] {
			vAssume(p.X < q.X)
		}
	}
	op := vChoose(4)
	var recv Polygonal = a
	if vChoose(2) == 1 {
		recv = MultiPolygon{a}
	}
	res, ok := vDoOp(recv, b, op).(Polygon)
	vAssert(ok, "result-is-polygon")
	switch op {
	case 0:
		vAssert(len(res) == 0, "intersection-of-disjoint-is-empty")
	case 1:
		vAssert(vSameRings(res, vClosed([]Path{a[0], b[0]})), "union-of-disjoint-is-both")
	case 2:
		vAssert(vSameRings(res, vClosed([]Path{a[0]})), "difference-of-disjoint-is-first")
	default:
		vAssert(len(res) > 0, "xor-of-disjoint-is-not-empty")
		vAssert(vSameRings(res, vClosed([]Path{a[0], b[0]})), "xor-of-disjoint-is-both")
	}
	vReach("end")
}

func vTri() Path { return Path{vFloatOrdPt(), vFloatOrdPt(), vFloatOrdPt()} }

func VH_C01_trivial_empty_operand() {
	a := Polygon{vTri()}
	op := vChoose(4)
	emptyFirst := vChoose(2) == 1
	var res Polygon
	var ok bool
	if emptyFirst {
		res, ok = vDoOp(Polygon{}, a, op).(Polygon)
	} else {
		res, ok = vDoOp(a, Polygon{}, op).(Polygon)
	}
	vAssert(ok, "result-is-polygon")
	switch op {
	case 0:
		vAssert(len(res) == 0, "intersection-with-empty-is-empty")
	case 1:
		vAssert(vSameRings(res, vClosed([]Path{a[0]})), "union-with-empty-is-the-other")
	case 2:
		if emptyFirst {
			vAssert(len(res) == 0, "empty-minus-a-is-empty")
		} else {
			vAssert(vSameRings(res, vClosed([]Path{a[0]})), "a-minus-empty-is-a")
		}
	default:
		vAssert(vSameRings(res, vClosed([]Path{a[0]})), "xor-with-empty-is-the-other")
	}
	vReach("end")
}

// ---- C14: Clip ----

func vLine(maxV int) LineString {
	n := vChoose(maxV + 1)
	l := make(LineString, n)
	for i := range l {
		l[i] = vFloatOrdPt()
	}
	return l
}

func VH_C14_clip_marshalling() {
	multi := vChoose(2) == 1
	var lines []LineString
	var recv Linear
	if multi {
		ml := MultiLineString{vLine(3), vLine(2)}
		lines, recv = ml, ml
	} else {
		l := vLine(3)
		lines, recv = []LineString{l}, l
	}
	pg := vPolygonal(vChoose(3))
	rec := &vCall{}
	canned := vCannedResult()
	vHookConstruct(rec, canned)
	var res Linear
	if vCatch(func() { res = recv.Clip(pg) }) {
		vAssert(false, "clip-panics")
		return
	}
	polyclip.VHook_Construct = nil
	vAssert(rec.n == 1, "clipper-called-once")
	vAssert(rec.op == polyclip.CLIPLINE, "clipline-operation")
	subj := make([]Path, len(lines))
	for i := range lines {
		subj[i] = Path(lines[i])
	}
	vAssert(vSameContours(rec.subject, subj), "every-line-sent-as-one-contour-in-order")
	vAssert(vSameContours(rec.clipping, vAllRings(pg)), "all-polygon-rings-sent")
	out, ok := res.(MultiLineString)
	vAssert(ok, "result-is-multilinestring")
	vAssert(len(out) == len(canned), "one-member-per-chain")
	for i := range canned {
		vAssert(len(out[i]) == len(canned[i]), "chain-length-kept")
		for j := range canned[i] {
			if j < len(out[i]) {
				vAssert(vAnd(vSameBits(out[i][j].X, canned[i][j].X), vSameBits(out[i][j].Y, canned[i][j].Y)), "chain-vertices-kept-in-order")
			}
		}
	}
	vReach("end")
}

// no shortcut may answer without the clipper: operands on a small grid (mode
// G), so that whatever arithmetic a would-be shortcut performs is decided too.
// The polygon is a square with a square hole; the line has two free vertices.
func VH_C14_clip_no_shortcut() {
	const w = 4
	l := LineString{vGridPt(w, 1), vGridPt(w, 1)}
	pg := Polygon{
		{{X: -3, Y: -3}, {X: 3, Y: -3}, {X: 3, Y: 3}, {X: -3, Y: 3}},
		{{X: -1, Y: -1}, {X: 1, Y: -1}, {X: 1, Y: 1}, {X: -1, Y: 1}},
	}
	var recv Linear = l
	if vChoose(2) == 1 {
		recv = MultiLineString{l}
	}
	var arg Polygonal = pg
	if vChoose(2) == 1 {
		arg = MultiPolygon{pg}
	}
	rec := &vCall{}
	vHookConstruct(rec, polyclip.Polygon{})
	res := recv.Clip(arg)
	polyclip.VHook_Construct = nil
	vAssert(rec.n == 1, "clipper-called-once")
	if rec.n == 1 {
		vAssert(vSameContours(rec.subject, []Path{Path(l)}), "line-sent-as-one-contour")
		vAssert(vSameContours(rec.clipping, vAllRings(arg)), "all-polygon-rings-sent")
	}
	out, ok := res.(MultiLineString)
	vAssert(ok && len(out) == 0, "result-is-what-the-clipper-returned")
	vReach("end")
}

// real clipper, trivial case: the line's box does not meet the polygon's: the
// clip is empty
func VH_C14_clip_trivial() {
	pgn := Polygon{vTri()}
	l := LineString{vFloatOrdPt(), vFloatOrdPt()}
	for _, p := range l {
		for _, q := range pgn[0] {
			vAssume(p.X < q.X)
		}
	}
	var recv Linear = l
	if vChoose(2) == 1 {
		recv = MultiLineString{l}
	}
	res, ok := recv.Clip(pgn).(MultiLineString)
	vAssert(ok, "result-is-multilinestring")
	vAssert(len(res) == 0, "line-outside-the-polygon-box-clips-to-nothing")
	vReach("end")
}
