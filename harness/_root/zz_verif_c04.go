package geom

import "math"

// C04: Points() yields exactly Len() vertices in storage order without
// panicking; Bounds() is the tight envelope of those vertices.
func vCheckEnum(g Geom) {
	want := vFlatten(g)
	var n int
	if vCatch(func() { n = g.Len() }) {
		vAssert(false, "len-panics")
		return
	}
	vAssert(n == len(want), "len-equals-vertex-count")
	var it func() Point
	if vCatch(func() { it = g.Points() }) {
		vAssert(false, "points-constructor-panics")
		return
	}
	for i := 0; i < len(want); i++ {
		var pt Point
		if vCatch(func() { pt = it() }) {
			vAssert(false, "points-iterator-panics")
			return
		}
		vAssert(vSamePt(pt, want[i]), "points-order")
	}
	var b *Bounds
	if vCatch(func() { b = g.Bounds() }) {
		vAssert(false, "bounds-panics")
		return
	}
	if bb, ok := g.(*Bounds); ok {
		vAssert(b == bb, "bounds-of-bounds-is-itself")
		return
	}
	if len(want) == 0 {
		vAssert(vAnd(math.IsInf(b.Min.X, 1), math.IsInf(b.Min.Y, 1), math.IsInf(b.Max.X, -1), math.IsInf(b.Max.Y, -1)), "empty-bounds")
		return
	}
	minXHit, minYHit, maxXHit, maxYHit := false, false, false, false
	for _, v := range want {
		vAssert(vAnd(b.Min.X <= v.X, v.X <= b.Max.X, b.Min.Y <= v.Y, v.Y <= b.Max.Y), "bounds-contain-vertex")
		minXHit = vOr(minXHit, b.Min.X == v.X)
		minYHit = vOr(minYHit, b.Min.Y == v.Y)
		maxXHit = vOr(maxXHit, b.Max.X == v.X)
		maxYHit = vOr(maxYHit, b.Max.Y == v.Y)
	}
	vAssert(vAnd(minXHit, minYHit, maxXHit, maxYHit), "bounds-tight")
}

func VH_C04_point()      { vCheckEnum(vPt()); vReach("end") }
func VH_C04_multipoint() { vCheckEnum(MultiPoint(vPath(0, vBound(3, 4)))); vReach("end") }
func VH_C04_linestring() { vCheckEnum(LineString(vPath(0, vBound(3, 4)))); vReach("end") }
func VH_C04_multilinestring() {
	vCheckEnum(vMultiLineString(vBound(3, 4), 0, vBound(2, 3)))
	vReach("end")
}
func VH_C04_polygon() {
	vCheckEnum(vPolygon(vBound(3, 4), 0, vBound(2, 3)))
	vReach("end")
}
func VH_C04_multipolygon() {
	vCheckEnum(vMultiPolygon(vBound(2, 3), vBound(2, 3), 0, vBound(2, 2)))
	vReach("end")
}
func VH_C04_bounds() { vCheckEnum(vBoundsBox()); vReach("end") }
func VH_C04_collection() {
	n := vChoose(vBound(2, 3) + 1)
	gc := make(GeometryCollection, n)
	for i := range gc {
		gc[i] = vGeomAny(1, vBound(1, 2), vBound(1, 2))
	}
	vCheckEnum(gc)
	vReach("end")
}

// vBoxOrEmpty is a well-formed box (Min <= Max) or the empty box.
func vBoxOrEmpty() *Bounds {
	if vChoose(2) == 1 {
		return NewBounds()
	}
	b := vBoundsBox()
	vAssume(vAnd(b.Min.X <= b.Max.X, b.Min.Y <= b.Max.Y))
	return b
}

func vBoxEq(a, b *Bounds) bool {
	return vAnd(a.Min.X == b.Min.X, a.Min.Y == b.Min.Y, a.Max.X == b.Max.X, a.Max.Y == b.Max.Y)
}

// Extend is the lattice join: componentwise min/max with the empty box as
// identity; commutative, associative and idempotent.
func VH_C04_extend() {
	a, b, c := vBoxOrEmpty(), vBoxOrEmpty(), vBoxOrEmpty()
	ab := a.Copy()
	ab.Extend(b)
	switch {
	case b.Empty():
		vAssert(vBoxEq(ab, a), "extend-by-empty-is-identity")
	case a.Empty():
		vAssert(vBoxEq(ab, b), "extend-of-empty-is-argument")
	default:
		vAssert(vAnd(
			ab.Min.X <= a.Min.X, ab.Min.X <= b.Min.X, vOr(ab.Min.X == a.Min.X, ab.Min.X == b.Min.X),
			ab.Min.Y <= a.Min.Y, ab.Min.Y <= b.Min.Y, vOr(ab.Min.Y == a.Min.Y, ab.Min.Y == b.Min.Y),
			ab.Max.X >= a.Max.X, ab.Max.X >= b.Max.X, vOr(ab.Max.X == a.Max.X, ab.Max.X == b.Max.X),
			ab.Max.Y >= a.Max.Y, ab.Max.Y >= b.Max.Y, vOr(ab.Max.Y == a.Max.Y, ab.Max.Y == b.Max.Y),
		), "extend-is-join")
	}
	ba := b.Copy()
	ba.Extend(a)
	vAssert(vBoxEq(ab, ba), "extend-commutative")
	abc := ab.Copy()
	abc.Extend(c)
	bc := b.Copy()
	bc.Extend(c)
	a2 := a.Copy()
	a2.Extend(bc)
	vAssert(vBoxEq(abc, a2), "extend-associative")
	aa := a.Copy()
	aa.Extend(a)
	vAssert(vBoxEq(aa, a), "extend-idempotent")
	n := a.Copy()
	n.Extend(nil)
	vAssert(vAnd(vSamePt(n.Min, a.Min), vSamePt(n.Max, a.Max)), "extend-nil-noop")
	vReach("end")
}

// Overlaps(a, b) <=> the closed boxes share a point.
func VH_C04_overlaps() {
	a, b := vBoundsBox(), vBoundsBox()
	vAssume(vAnd(a.Min.X <= a.Max.X, a.Min.Y <= a.Max.Y, b.Min.X <= b.Max.X, b.Min.Y <= b.Max.Y))
	got := a.Overlaps(b)
	// a shared point exists iff the intervals intersect on both axes
	lox, hix := math.Max(a.Min.X, b.Min.X), math.Min(a.Max.X, b.Max.X)
	loy, hiy := math.Max(a.Min.Y, b.Min.Y), math.Min(a.Max.Y, b.Max.Y)
	want := vAnd(lox <= hix, loy <= hiy)
	vAssert(got == want, "overlaps-iff-shared-point")
	vAssert(got == b.Overlaps(a), "overlaps-symmetric")
	vReach("end")
}

// box ∩ box: the common rectangle, or nil when the boxes share no area.
func VH_C04_boxintersection() {
	a, b := vBoundsBox(), vBoundsBox()
	vAssume(vAnd(a.Min.X < a.Max.X, a.Min.Y < a.Max.Y, b.Min.X < b.Max.X, b.Min.Y < b.Max.Y))
	r := a.Intersection(b)
	lox, hix := math.Max(a.Min.X, b.Min.X), math.Min(a.Max.X, b.Max.X)
	loy, hiy := math.Max(a.Min.Y, b.Min.Y), math.Min(a.Max.Y, b.Max.Y)
	hasArea := vAnd(lox < hix, loy < hiy)
	if r == nil {
		vAssert(!hasArea, "nil-only-when-no-area")
	} else {
		rb, ok := r.(*Bounds)
		vAssert(ok, "box-result-is-bounds")
		vAssert(hasArea, "non-nil-only-when-area")
		vAssert(vAnd(rb.Min.X == lox, rb.Min.Y == loy, rb.Max.X == hix, rb.Max.Y == hiy), "common-rectangle")
	}
	vReach("end")
}
