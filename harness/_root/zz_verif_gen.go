package geom

// Shared generators and oracles for the geom-package harnesses.

func vCoord() float64 { return vFloatOrd() }

func vCoordOld() float64 {
	f := vFloat64()
	vAssume(f == f)
	return f
}

func vPt() Point { return Point{X: vCoord(), Y: vCoord()} }

// vPath returns a path with a case-split length in [minN, maxN] and free coordinates.
func vPath(minN, maxN int) Path {
	n := minN + vChoose(maxN-minN+1)
	p := make(Path, n)
	for i := range p {
		p[i] = vPt()
	}
	return p
}

func vPolygon(maxRings, minV, maxV int) Polygon {
	n := vChoose(maxRings + 1)
	p := make(Polygon, n)
	for i := range p {
		p[i] = vPath(minV, maxV)
	}
	return p
}

func vMultiLineString(maxL, minV, maxV int) MultiLineString {
	n := vChoose(maxL + 1)
	p := make(MultiLineString, n)
	for i := range p {
		p[i] = LineString(vPath(minV, maxV))
	}
	return p
}

func vMultiPolygon(maxP, maxRings, minV, maxV int) MultiPolygon {
	n := vChoose(maxP + 1)
	p := make(MultiPolygon, n)
	for i := range p {
		p[i] = vPolygon(maxRings, minV, maxV)
	}
	return p
}

func vBoundsBox() *Bounds {
	b := &Bounds{Min: vPt(), Max: vPt()}
	return b
}

// vGeomAny builds a geometry of a case-split type with small shapes;
// collections nest to the given depth.
func vGeomAny(depth, maxM, maxV int) Geom {
	k := 7
	if depth > 0 {
		k = 8
	}
	switch vChoose(k) {
	case 0:
		return vPt()
	case 1:
		return MultiPoint(vPath(0, maxV))
	case 2:
		return LineString(vPath(0, maxV))
	case 3:
		return vMultiLineString(maxM, 0, maxV)
	case 4:
		return vPolygon(maxM, 0, maxV)
	case 5:
		return vMultiPolygon(maxM, maxM, 0, maxV)
	case 6:
		// a *Bounds used as a geometry is a well-formed box
		b := vBoundsBox()
		vAssume(vAnd(b.Min.X <= b.Max.X, b.Min.Y <= b.Max.Y))
		return b
	default:
		n := vChoose(maxM + 1)
		gc := make(GeometryCollection, n)
		for i := range gc {
			gc[i] = vGeomAny(depth-1, maxM, maxV)
		}
		return gc
	}
}

// vFlatten is the independent oracle for vertex enumeration: the stored
// vertices in storage order.
func vFlatten(g Geom) []Point {
	switch t := g.(type) {
	case Point:
		return []Point{t}
	case MultiPoint:
		return []Point(t)
	case LineString:
		return []Point(t)
	case MultiLineString:
		var o []Point
		for _, l := range t {
			o = append(o, l...)
		}
		return o
	case Polygon:
		var o []Point
		for _, r := range t {
			o = append(o, r...)
		}
		return o
	case MultiPolygon:
		var o []Point
		for _, p := range t {
			for _, r := range p {
				o = append(o, r...)
			}
		}
		return o
	case *Bounds:
		return []Point{t.Min, {t.Max.X, t.Min.Y}, t.Max, {t.Min.X, t.Max.Y}}
	case GeometryCollection:
		var o []Point
		for _, m := range t {
			o = append(o, vFlatten(m)...)
		}
		return o
	}
	return nil
}

func vSamePt(a, b Point) bool { return vAnd(vSameBits(a.X, b.X), vSameBits(a.Y, b.Y)) }
