package geom

import (
	"errors"

	"github.com/ctessum/geom/proj"
)

// C10 (structure part): Geom.Transform applies the transformer vertex by
// vertex, keeps type and nesting, leaves the input untouched, treats nil as
// the identity and returns the transformer's error without panicking.

var vErrT = errors.New("verif: transformer failure")

func vTx(x, y float64) (float64, float64) { return x + 1.5, y * 2 }

func vAnyPt() Point { return Point{X: vFloat64(), Y: vFloat64()} }

func vAnyPath(minN, maxN int) Path {
	n := minN + vChoose(maxN-minN+1)
	p := make(Path, n)
	for i := range p {
		p[i] = vAnyPt()
	}
	return p
}

func vAnyGeom(k, depth int) Geom {
	switch k {
	case 0:
		return vAnyPt()
	case 1:
		return MultiPoint(vAnyPath(0, 2))
	case 2:
		return LineString(vAnyPath(0, 2))
	case 3:
		n := vChoose(3)
		ml := make(MultiLineString, n)
		for i := range ml {
			ml[i] = LineString(vAnyPath(0, 2))
		}
		return ml
	case 4:
		n := vChoose(3)
		p := make(Polygon, n)
		for i := range p {
			p[i] = vAnyPath(0, 2)
		}
		return p
	case 5:
		n := vChoose(3)
		mp := make(MultiPolygon, n)
		for i := range mp {
			mp[i] = Polygon{vAnyPath(0, 2)}
		}
		return mp
	case 6:
		return &Bounds{Min: vAnyPt(), Max: vAnyPt()}
	default:
		n := vChoose(3)
		gc := make(GeometryCollection, n)
		for i := range gc {
			kk := 7
			if depth > 1 {
				kk = 8
			}
			gc[i] = vAnyGeom(vChoose(kk), depth-1)
		}
		return gc
	}
}

// vDeepCopy snapshots a geometry (to show that Transform leaves it alone).
func vDeepCopy(g Geom) Geom {
	switch t := g.(type) {
	case Point:
		return t
	case MultiPoint:
		return append(MultiPoint{}, t...)
	case LineString:
		return append(LineString{}, t...)
	case MultiLineString:
		o := make(MultiLineString, len(t))
		for i := range t {
			o[i] = append(LineString{}, t[i]...)
		}
		return o
	case Polygon:
		o := make(Polygon, len(t))
		for i := range t {
			o[i] = append(Path{}, t[i]...)
		}
		return o
	case MultiPolygon:
		o := make(MultiPolygon, len(t))
		for i := range t {
			o[i] = vDeepCopy(t[i]).(Polygon)
		}
		return o
	case *Bounds:
		c := *t
		return &c
	case GeometryCollection:
		o := make(GeometryCollection, len(t))
		for i := range t {
			o[i] = vDeepCopy(t[i])
		}
		return o
	}
	return nil
}

// vSameShape: same dynamic types and nesting (with *Bounds -> one-ring
// four-vertex Polygon when transformed).
func vSameShape(in, out Geom, transformed bool) bool {
	switch t := in.(type) {
	case Point:
		_, ok := out.(Point)
		return ok
	case MultiPoint:
		o, ok := out.(MultiPoint)
		return ok && len(o) == len(t)
	case LineString:
		o, ok := out.(LineString)
		return ok && len(o) == len(t)
	case MultiLineString:
		o, ok := out.(MultiLineString)
		if !ok || len(o) != len(t) {
			return false
		}
		for i := range t {
			if len(o[i]) != len(t[i]) {
				return false
			}
		}
		return true
	case Polygon:
		o, ok := out.(Polygon)
		if !ok || len(o) != len(t) {
			return false
		}
		for i := range t {
			if len(o[i]) != len(t[i]) {
				return false
			}
		}
		return true
	case MultiPolygon:
		o, ok := out.(MultiPolygon)
		if !ok || len(o) != len(t) {
			return false
		}
		for i := range t {
			if !vSameShape(t[i], o[i], transformed) {
				return false
			}
		}
		return true
	case *Bounds:
		if !transformed {
			o, ok := out.(*Bounds)
			return ok && o == t
		}
		o, ok := out.(Polygon)
		return ok && len(o) == 1 && len(o[0]) == 4
	case GeometryCollection:
		o, ok := out.(GeometryCollection)
		if !ok || len(o) != len(t) {
			return false
		}
		for i := range t {
			if !vSameShape(t[i], o[i], transformed) {
				return false
			}
		}
		return true
	}
	return false
}

func vCheckTransform(g Geom) {
	verts := vFlatten(g)
	n := len(verts)
	before := vDeepCopy(g)
	failAt := vChoose(n + 1) // n = never fails
	calls := 0
	var t proj.Transformer = func(x, y float64) (float64, float64, error) {
		i := calls
		calls++
		if i == failAt {
			return 0, 0, vErrT
		}
		tx, ty := vTx(x, y)
		return tx, ty, nil
	}
	var out Geom
	var err error
	if vCatch(func() { out, err = g.Transform(t) }) {
		vAssert(false, "transform-panics")
		return
	}
	// the input is untouched
	after := vFlatten(g)
	was := vFlatten(before)
	vAssert(len(after) == len(was), "input-vertex-count-unchanged")
	for i := range was {
		vAssert(vSamePt(after[i], was[i]), "input-untouched")
	}
	if failAt < n {
		vAssert(err == vErrT, "transformer-error-returned")
		return
	}
	vAssert(err == nil, "no-error-when-transformer-succeeds")
	vAssert(vSameShape(g, out, true), "same-type-and-nesting")
	got := vFlatten(out)
	vAssert(len(got) == n, "vertex-count-preserved")
	vAssert(calls == n, "transformer-called-once-per-vertex")
	for i := range verts {
		tx, ty := vTx(verts[i].X, verts[i].Y)
		vAssert(vAnd(vSameBits(got[i].X, tx), vSameBits(got[i].Y, ty)), "vertex-i-is-transformer-of-vertex-i")
	}
}

func VH_C10_transform_flat() {
	vCheckTransform(vAnyGeom(vChoose(7), 0))
	vReach("end")
}

func VH_C10_transform_collection() {
	vCheckTransform(vAnyGeom(7, vBound(1, 2)))
	vReach("end")
}

func VH_C10_transform_nil() {
	g := vAnyGeom(vChoose(8), 1)
	var out Geom
	var err error
	if vCatch(func() { out, err = g.Transform(nil) }) {
		vAssert(false, "nil-transform-panics")
		return
	}
	vAssert(err == nil, "nil-transformer-no-error")
	vAssert(vSameShape(g, out, false), "nil-transformer-same-shape")
	a, b := vFlatten(g), vFlatten(out)
	vAssert(len(a) == len(b), "nil-transformer-same-count")
	for i := range a {
		vAssert(vSamePt(a[i], b[i]), "nil-transformer-identity")
	}
	vReach("end")
}
