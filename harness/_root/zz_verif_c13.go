package geom

// C13: Simplify terminates, returns an order-preserving subsequence that
// keeps both end points, leaves the input untouched, keeps simple lines
// simple, and drops only vertices within the tolerance.

func vGridTol(w, s int) float64 {
	t := vGrid(w, s)
	vAssume(t >= 0)
	return t
}

// vSubsequence checks out against in by greedy matching and returns the
// matched indices (nil if out is not a subsequence of in).
func vSubsequence(in, out []Point) []int {
	idx := make([]int, 0, len(out))
	pos := 0
	for _, o := range out {
		for pos < len(in) && !vSamePt(in[pos], o) {
			pos++
		}
		if pos == len(in) {
			return nil
		}
		idx = append(idx, pos)
		pos++
	}
	return idx
}

func vCheckSimplifyStructure(in Path, out []Point) []int {
	if len(in) == 0 {
		vAssert(len(out) == 0, "empty-in-empty-out")
		return nil
	}
	vAssert(len(out) >= 1 && len(out) <= len(in), "output-length-in-range")
	if len(out) == 0 {
		return nil
	}
	vAssert(vSamePt(out[0], in[0]), "first-vertex-kept")
	vAssert(vSamePt(out[len(out)-1], in[len(in)-1]), "last-vertex-kept")
	idx := vSubsequence(in, out)
	vAssert(idx != nil, "output-is-subsequence-of-input")
	return idx
}

func VH_C13_linestring_structure() {
	w := vBound(3, 4)
	n := vChoose(vBound(5, 6))
	l := LineString(vGridPath(n, n, w, 0))
	before := append(Path{}, l...)
	tol := vGridTol(w, 0)
	out := l.Simplify(tol).(LineString)
	for i := range before {
		vAssert(vSamePt(before[i], l[i]), "input-untouched")
	}
	vCheckSimplifyStructure(Path(l), out)
	vReach("end")
}

// exact orientation predicates (integer arithmetic on the grid)
func vOrient(a, b, c Point) float64 { return (b.X-a.X)*(c.Y-a.Y) - (b.Y-a.Y)*(c.X-a.X) }

// closed segments ab and cd share a point (general position: no three of the
// four end points collinear)
func vProperCross(a, b, c, d Point) bool {
	o1, o2, o3, o4 := vOrient(a, b, c), vOrient(a, b, d), vOrient(c, d, a), vOrient(c, d, b)
	return vAnd((o1 > 0) != (o2 > 0), (o3 > 0) != (o4 > 0))
}

// vSimple: no two non-adjacent segments of the open polyline meet
func vSimple(p []Point) bool {
	r := true
	for i := 0; i+1 < len(p); i++ {
		for j := i + 2; j+1 < len(p); j++ {
			r = vAnd(r, !vProperCross(p[i], p[i+1], p[j], p[j+1]))
		}
	}
	return r
}

func vGeneralPosition(p []Point) bool {
	r := true
	for i := range p {
		for j := i + 1; j < len(p); j++ {
			for k := j + 1; k < len(p); k++ {
				r = vAnd(r, vOrient(p[i], p[j], p[k]) != 0)
			}
		}
	}
	return r
}

func VH_C13_linestring_simplicity() {
	// five vertices are the fewest for which a shortcut (a chord replacing two
	// segments) can cross a segment it does not touch
	w := vBound(3, 4)
	n := 4 + vChoose(vBound(1, 2))
	l := LineString(vGridPath(n, n, w, 0))
	vAssume(vGeneralPosition(l))
	vAssume(vSimple(l))
	tol := vGridTol(w, 0)
	out := l.Simplify(tol).(LineString)
	vAssert(vSimple(out), "simple-input-gives-simple-output")
	vReach("end")
}

// five vertices with the two ends of one candidate chord fixed (which keeps
// most orientation tests linear): p0 and p2 concrete, p1, p3, p4 and the
// tolerance free; traversed in either direction
func VH_C13_linestring_simplicity_chord() {
	w := 3
	f := vGridPath(3, 3, w, 0)
	l := LineString{{X: -4, Y: -1}, f[0], {X: 3, Y: 0}, f[1], f[2]}
	if vChoose(2) == 1 {
		l = LineString{l[4], l[3], l[2], l[1], l[0]}
	}
	vAssume(vGeneralPosition(l))
	vAssume(vSimple(l))
	tol := vGridTol(w, 0)
	out := l.Simplify(tol).(LineString)
	vAssert(vSimple(out), "simple-input-gives-simple-output")
	vReach("end")
}

// every dropped vertex is within tol of the output segment that replaces it
// (exact: squared distances, cross-multiplied)
func vWithinTol(p, a, b Point, tol float64) bool {
	vx, vy := b.X-a.X, b.Y-a.Y
	wx, wy := p.X-a.X, p.Y-a.Y
	c1 := wx*vx + wy*vy
	c2 := vx*vx + vy*vy
	t2 := tol * tol
	dA := wx*wx + wy*wy
	dB := (p.X-b.X)*(p.X-b.X) + (p.Y-b.Y)*(p.Y-b.Y)
	// interior: |w|^2 - c1^2/c2 <= tol^2  <=>  |w|^2*c2 - c1^2 <= tol^2*c2
	return vIteB(c1 <= 0, dA <= t2, vIteB(c2 <= c1, dB <= t2, dA*c2-c1*c1 <= t2*c2))
}

func VH_C13_linestring_tolerance() {
	w := 3
	n := 3 + vChoose(vBound(2, 3))
	l := LineString(vGridPath(n, n, w, 0))
	tol := vGridTol(w, 0)
	out := l.Simplify(tol).(LineString)
	idx := vCheckSimplifyStructure(Path(l), out)
	if idx == nil {
		return
	}
	for m := 0; m+1 < len(idx); m++ {
		for k := idx[m] + 1; k < idx[m+1]; k++ {
			vAssert(vWithinTol(l[k], l[idx[m]], l[idx[m+1]], tol), "dropped-vertex-within-tolerance")
		}
	}
	vReach("end")
}

// degenerate inputs: 0, 1 and 2 vertices terminate and are returned as they are
func VH_C13_degenerate() {
	n := vChoose(3)
	l := LineString(vGridPath(n, n, 3, 0))
	tol := vGridTol(3, 0)
	out := l.Simplify(tol).(LineString)
	vAssert(len(out) == n, "short-line-returned-whole")
	for i := range out {
		vAssert(vSamePt(out[i], l[i]), "short-line-vertices-kept")
	}
	vReach("end")
}

// members of multi-geometries are simplified independently: same result as
// simplifying the member alone (MultiLineString), and polygon rings are each
// subsequences keeping their end points
func VH_C13_multi() {
	w := 3
	tol := vGridTol(w, 0)
	if vChoose(2) == 0 {
		ml := MultiLineString{LineString(vGridPath(3, 2+vBound(1, 2), w, 0)), LineString(vGridPath(3, 3, w, 0))}
		out := ml.Simplify(tol).(MultiLineString)
		vAssert(len(out) == len(ml), "member-count-kept")
		for i := range ml {
			alone := ml[i].Simplify(tol).(LineString)
			vAssert(len(alone) == len(out[i]), "member-simplified-independently-length")
			if len(alone) == len(out[i]) {
				for j := range alone {
					vAssert(vSamePt(alone[j], out[i][j]), "member-simplified-independently")
				}
			}
		}
	} else {
		pg := Polygon{vGridPath(4, 4, w, 0)}
		out := pg.Simplify(tol).(Polygon)
		vAssert(len(out) == 1, "ring-count-kept")
		vCheckSimplifyStructure(pg[0], out[0])
		mp := MultiPolygon{pg}
		out2 := mp.Simplify(tol).(MultiPolygon)
		vAssert(len(out2) == 1 && len(out2[0]) == 1, "multipolygon-nesting-kept")
	}
	vReach("end")
}
