package geom

// C15: Similar is a symmetric tolerance comparison ignoring only the
// documented reorderings. Coordinates and tolerance are grid values so that
// a-b is exact (float mode G).

func vTol(w, s int) float64 {
	t := vGrid(w, s)
	vAssume(t > 0)
	return t
}

// vGeomGrid builds a geometry of kind k with case-split member counts.
func vGeomGrid(k, maxM, maxV, w, s int) Geom {
	switch k {
	case 0:
		return vGridPt(w, s)
	case 1:
		return MultiPoint(vGridPath(0, maxV, w, s))
	case 2:
		return LineString(vGridPath(0, maxV, w, s))
	case 3:
		n := vChoose(maxM + 1)
		ml := make(MultiLineString, n)
		for i := range ml {
			ml[i] = LineString(vGridPath(1, maxV, w, s))
		}
		return ml
	case 4:
		n := vChoose(maxM + 1)
		p := make(Polygon, n)
		for i := range p {
			p[i] = vGridPath(2, maxV, w, s)
		}
		return p
	case 5:
		n := vChoose(maxM + 1)
		mp := make(MultiPolygon, n)
		for i := range mp {
			mp[i] = Polygon{vGridPath(2, maxV, w, s)}
		}
		return mp
	case 6:
		return &Bounds{Min: vGridPt(w, s), Max: vGridPt(w, s)}
	default:
		n := vChoose(maxM + 1)
		gc := make(GeometryCollection, n)
		for i := range gc {
			gc[i] = vGeomGrid(vChoose(3), 0, 1, w, s)
		}
		return gc
	}
}

// (1) symmetry for every pair of shapes of the same kind (different kinds
// are rejected on both sides by the type switch, checked in _types).
func vSymmetric(k, maxM, maxV int) {
	w, s := vBound(4, 5), 1
	g := vGeomGrid(k, maxM, maxV, w, s)
	h := vGeomGrid(k, maxM, maxV, w, s)
	t := vTol(w, s)
	vAssert(g.Similar(h, t) == h.Similar(g, t), "similar-symmetric")
}

func VH_C15_sym_point()           { vSymmetric(0, 0, 0); vReach("end") }
func VH_C15_sym_multipoint()      { vSymmetric(1, 0, vBound(2, 3)); vReach("end") }
func VH_C15_sym_linestring()      { vSymmetric(2, 0, vBound(2, 3)); vReach("end") }
func VH_C15_sym_multilinestring() { vSymmetric(3, 2, vBound(1, 2)); vReach("end") }
func VH_C15_sym_polygon()         { vSymmetric(4, 2, vBound(2, 3)); vReach("end") }
func VH_C15_sym_multipolygon()    { vSymmetric(5, 2, 2); vReach("end") }
func VH_C15_sym_bounds()          { vSymmetric(6, 0, 0); vReach("end") }
func VH_C15_sym_collection()      { vSymmetric(7, 2, 1); vReach("end") }

// different dynamic types are never similar
func VH_C15_types() {
	w, s := 3, 0
	a, b := vChoose(8), vChoose(8)
	g := vGeomGrid(a, 1, 1, w, s)
	h := vGeomGrid(b, 1, 1, w, s)
	t := vTol(w, s)
	if a != b {
		vAssert(!g.Similar(h, t), "different-types-not-similar")
	}
	vReach("end")
}

func vNear(a, b Point, t float64) bool {
	return vAnd(a.X-b.X < t, b.X-a.X < t, a.Y-b.Y < t, b.Y-a.Y < t)
}

// vFar: separated by more than 4t in at least one coordinate
func vFar(a, b Point, t float64) bool {
	d := 4 * t
	return vOr(a.X-b.X > d, b.X-a.X > d, a.Y-b.Y > d, b.Y-a.Y > d)
}

func vPerturbPath(p Path, t float64, w, s int) Path {
	q := make(Path, len(p))
	for i := range p {
		q[i] = vGridPt(w, s)
		vAssume(vNear(p[i], q[i], t))
	}
	return q
}

// (2) accept: every coordinate perturbed by less than the tolerance
func VH_C15_accept_linestring() {
	w, s := vBound(6, 7), 2
	t := vTol(3, s)
	g := LineString(vGridPath(0, vBound(3, 4), w, s))
	h := LineString(vPerturbPath(Path(g), t, w, s))
	vAssert(g.Similar(h, t), "perturbed-linestring-similar")
	vAssert(MultiPoint(g).Similar(MultiPoint(h), t), "perturbed-multipoint-similar")
	vReach("end")
}

// members reordered by an arbitrary permutation; distinct members start at
// vertices separated by much more than the tolerance
func VH_C15_accept_multilinestring_permuted() {
	w, s := vBound(6, 7), 2
	t := vTol(3, s)
	n := 1 + vChoose(vBound(2, 3))
	g := make(MultiLineString, n)
	for i := range g {
		g[i] = LineString(vGridPath(1, 2, w, s))
		for j := 0; j < i; j++ {
			vAssume(vFar(g[i][0], g[j][0], t))
		}
	}
	perm := vPerms(n)[vChoose(len(vPerms(n)))]
	h := make(MultiLineString, n)
	for i := range h {
		h[i] = LineString(vPerturbPath(Path(g[perm[i]]), t, w, s))
	}
	vAssert(g.Similar(h, t), "permuted-perturbed-multilinestring-similar")
	vReach("end")
}

func vPerms(n int) [][]int {
	if n == 0 {
		return [][]int{{}}
	}
	var out [][]int
	for _, p := range vPerms(n - 1) {
		for i := 0; i <= len(p); i++ {
			q := append(append(append([]int{}, p[:i]...), n-1), p[i:]...)
			out = append(out, q)
		}
	}
	return out
}

// closed ring, start vertex rotated, every vertex perturbed; vertices have
// pairwise well separated X so that the anchor is unambiguous
func VH_C15_accept_ring_rotated() {
	w, s := vBound(6, 7), 2
	t := vTol(3, s)
	n := 3 + vChoose(vBound(1, 2))
	r := vGridPath(n, n, w, s)
	for i := 0; i < n; i++ {
		for j := 0; j < i; j++ {
			vAssume(vOr(r[i].X-r[j].X > 4*t, r[j].X-r[i].X > 4*t))
		}
	}
	closed := append(append(Path{}, r...), r[0])
	k := vChoose(n)
	rot := append(append(Path{}, r[k:]...), r[:k]...)
	rotClosed := append(rot, rot[0])
	h := vPerturbPath(rotClosed[:n], t, w, s)
	hClosed := append(h, h[0])
	vAssert(Polygon{closed}.Similar(Polygon{hClosed}, t), "rotated-perturbed-ring-similar")
	vReach("end")
}

// same, without the distinct-X assumption: vertices only separated as points
func VH_C15_accept_ring_rotated_anyx() {
	w, s := vBound(6, 6), 2
	t := vTol(3, s)
	n := 3 + vChoose(vBound(1, 2))
	r := vGridPath(n, n, w, s)
	for i := 0; i < n; i++ {
		for j := 0; j < i; j++ {
			vAssume(vFar(r[i], r[j], t))
		}
	}
	closed := append(append(Path{}, r...), r[0])
	k := vChoose(n)
	rot := append(append(Path{}, r[k:]...), r[:k]...)
	h := vPerturbPath(rot, t, w, s)
	hClosed := append(h, h[0])
	vAssert(Polygon{closed}.Similar(Polygon{hClosed}, t), "rotated-perturbed-ring-similar-anyx")
	vReach("end")
}

// (3) reject: counts differ, a line string is reversed, or one vertex is
// displaced by more than the tolerance
func VH_C15_reject() {
	w, s := vBound(6, 7), 2
	t := vTol(3, s)
	g := LineString(vGridPath(2, 3, w, s))
	switch vChoose(4) {
	case 0: // vertex count differs
		h := LineString(vPerturbPath(Path(g[:len(g)-1]), t, w, s))
		vAssert(!g.Similar(h, t), "vertex-count-differs")
		vAssert(!h.Similar(g, t), "vertex-count-differs-rev")
	case 1: // reversed (end points far apart, so not a palindrome)
		vAssume(vFar(g[0], g[len(g)-1], t))
		h := make(LineString, len(g))
		for i := range g {
			h[i] = g[len(g)-1-i]
		}
		vAssert(!g.Similar(h, t), "reversed-linestring")
	case 2: // one vertex displaced by more than tol
		h := LineString(vPerturbPath(Path(g), t, w, s))
		i := vChoose(len(g))
		d := vGrid(w, s)
		vAssume(vOr(d > t, -d > t))
		h[i].X = g[i].X + d
		vAssert(!g.Similar(h, t), "displaced-vertex")
	default: // member count differs
		a := MultiLineString{g}
		b := MultiLineString{LineString(vPerturbPath(Path(g), t, w, s)), LineString(vGridPath(1, 2, w, s))}
		vAssert(!a.Similar(b, t), "member-inserted")
		vAssert(!b.Similar(a, t), "member-deleted")
	}
	vReach("end")
}

// a ring with one vertex displaced by more than the tolerance is not similar,
// whichever vertex it is (the closing one included) and whether or not the
// rings repeat their first vertex
func VH_C15_reject_ring() {
	w, s := vBound(6, 7), 2
	t := vTol(3, s)
	n := 3 + vChoose(vBound(1, 2))
	r := vGridPath(n, n, w, s)
	for i := 0; i < n; i++ {
		for j := 0; j < i; j++ {
			vAssume(vFar(r[i], r[j], t))
		}
	}
	g := append(Path{}, r...)
	if vChoose(2) == 1 {
		g = append(g, r[0])
	}
	h := append(Path{}, g...)
	i := vChoose(len(h))
	d := vGrid(w, s)
	vAssume(vOr(d > 8*t, -d > 8*t))
	h[i].X = g[i].X + d
	// the displaced vertex is far from every vertex of g
	for _, q := range g {
		vAssume(vFar(h[i], q, t))
	}
	vAssert(!Polygon{g}.Similar(Polygon{h}, t), "ring-with-displaced-vertex-not-similar")
	vAssert(!Polygon{h}.Similar(Polygon{g}, t), "ring-with-displaced-vertex-not-similar-rev")
	vReach("end")
}
