package geom

import "math"

// C03: Area (exact on the grid), Centroid (real arithmetic), Length,
// Distance and Buffer (term identity with an independent oracle).

func vRing(v []Point, closed bool) Path {
	r := append(Path{}, v...)
	if closed {
		r = append(r, v[0])
	}
	return r
}

func vAbs(x float64) float64 { return vIteF(x < 0, -x, x) }

// strictly inside the (non-degenerate, any winding) triangle t
func vInsideTri(t []Point, p Point) bool {
	o := vOrient(t[0], t[1], t[2])
	a, b, c := vOrient(t[0], t[1], p), vOrient(t[1], t[2], p), vOrient(t[2], t[0], p)
	return vIteB(o > 0, vAnd(a > 0, b > 0, c > 0), vAnd(a < 0, b < 0, c < 0))
}

// the shoelace sum exactly as area() forms it
func vShoelace(r Path) float64 {
	hi := len(r) - 1
	a := (r[hi].X + r[0].X) * (r[0].Y - r[hi].Y)
	for i := 0; i < hi; i++ {
		a += (r[i].X + r[i+1].X) * (r[i+1].Y - r[i].Y)
	}
	return a
}

// polynomial identity (decided in real arithmetic): the shoelace sum of a
// triangle ring, closed or not, is its orientation determinant up to sign
func VH_C03_lemma_shoelace() {
	t := vGridPath(3, 3, 5, 0)
	r := vRing(t, vChoose(2) == 1)
	vAssert(vAbs(vShoelace(r)) == vAbs(vOrient(t[0], t[1], t[2])), "shoelace-equals-orientation")
	vReach("end")
}

func VH_C03_area_triangle() {
	w := vBound(4, 5)
	t := vGridPath(3, 3, w, 0)
	o := vOrient(t[0], t[1], t[2])
	vAssume(o != 0)
	pg := Polygon{vRing(t, vChoose(2) == 1)}
	vAssert(pg.Area() == vAbs(o)/2, "triangle-area-any-winding-rotation-closing")
	vAssert(MultiPolygon{pg}.Area() == vAbs(o)/2, "multipolygon-of-one")
	vReach("end")
}

func VH_C03_area_with_hole() {
	w := vBound(4, 4)
	s := vGridPath(3, 3, w, 0)
	h := vGridPath(3, 3, w, 0)
	os, oh := vOrient(s[0], s[1], s[2]), vOrient(h[0], h[1], h[2])
	vAssume(vAnd(os != 0, oh != 0, vInsideTri(s, h[0]), vInsideTri(s, h[1]), vInsideTri(s, h[2])))
	pg := Polygon{vRing(s, vChoose(2) == 1), vRing(h, vChoose(2) == 1)}
	vLemma(vAbs(vShoelace(pg[0])) == vAbs(os), "VH_C03_lemma_shoelace")
	vLemma(vAbs(vShoelace(pg[1])) == vAbs(oh), "VH_C03_lemma_shoelace")
	vAssert(pg.Area() == (vAbs(os)-vAbs(oh))/2, "shell-minus-hole-any-winding")
	vReach("end")
}

// a fixed convex shell (a "house") in every spelling — any start vertex, either
// winding, closed or not — with a free triangular hole strictly inside it
func VH_C03_area_hole_fixed_shell() {
	house := []Point{{X: -6, Y: -6}, {X: 6, Y: -6}, {X: 6, Y: 2}, {X: 0, Y: 7}, {X: -6, Y: 2}}
	rot, rev := vChoose(5), vChoose(2) == 1
	s := make([]Point, 5)
	for i := range s {
		j := (i + rot) % 5
		if rev {
			j = (5 - i + rot) % 5
		}
		s[i] = house[j]
	}
	// the hole: a fixed small triangle at a free grid position, any start vertex
	d := vGridPt(4, 0)
	tri := []Point{{X: d.X, Y: d.Y}, {X: d.X + 1, Y: d.Y}, {X: d.X, Y: d.Y + 1}}
	hr := vChoose(3)
	h := []Point{tri[hr], tri[(hr+1)%3], tri[(hr+2)%3]}
	if vChoose(2) == 1 {
		h[1], h[2] = h[2], h[1]
	}
	oh := 1.0
	for _, q := range h {
		for i := range house {
			vAssume(vOrient(house[i], house[(i+1)%5], q) > 0)
		}
	}
	pg := Polygon{vRing(s, vChoose(2) == 1), vRing(h, vChoose(2) == 1)}
	vAssert(pg.Area() == 126-vAbs(oh)/2, "fixed-shell-minus-hole-any-spelling")
	vReach("end")
}

func VH_C03_area_multipolygon() {
	w := 4
	a := vGridPath(3, 3, w, 0)
	b := vGridPath(3, 3, w, 0)
	oa, ob := vOrient(a[0], a[1], a[2]), vOrient(b[0], b[1], b[2])
	vAssume(vAnd(oa != 0, ob != 0))
	// disjoint members: separated by a vertical line
	for _, p := range a {
		for _, q := range b {
			vAssume(p.X < q.X)
		}
	}
	mp := MultiPolygon{{vRing(a, vChoose(2) == 1)}, {vRing(b, true)}}
	vAssert(mp.Area() == (vAbs(oa)+vAbs(ob))/2, "sum-of-disjoint-members")
	vReach("end")
}

func VH_C03_area_bounds() {
	b := &Bounds{Min: vGridPt(4, 0), Max: vGridPt(4, 0)}
	vAssume(vAnd(b.Min.X <= b.Max.X, b.Min.Y <= b.Max.Y))
	vAssert(b.Area() == (b.Max.X-b.Min.X)*(b.Max.Y-b.Min.Y), "box-area")
	c := b.Centroid()
	vAssert(vAnd(c.X*2 == b.Min.X+b.Max.X, c.Y*2 == b.Min.Y+b.Max.Y), "box-centroid-is-midpoint")
	vReach("end")
}

// ---- centroid, in real arithmetic ----

func VH_C03_centroid_triangle() {
	w := 4
	t := vGridPath(3, 3, w, 0)
	vAssume(vOrient(t[0], t[1], t[2]) != 0)
	r := vRing(t, true)
	sx, sy := t[0].X+t[1].X+t[2].X, t[0].Y+t[1].Y+t[2].Y
	c := Polygon{r}.Centroid()
	vAssert(vAnd(vClose(c.X*3, sx), vClose(c.Y*3, sy)), "polygon-centroid-of-closed-triangle")
	m := MultiPolygon{{r}}.Centroid()
	vAssert(vAnd(vClose(m.X*3, sx), vClose(m.Y*3, sy)), "multipolygon-centroid-of-closed-triangle")
	vReach("end")
}

func VH_C03_centroid_with_hole() {
	w := 4
	s := vGridPath(3, 3, w, 0)
	h := vGridPath(3, 3, w, 0)
	os, oh := vOrient(s[0], s[1], s[2]), vOrient(h[0], h[1], h[2])
	vAssume(vAnd(os != 0, oh != 0, vInsideTri(s, h[0]), vInsideTri(s, h[1]), vInsideTri(s, h[2])))
	// opposite windings (shell and hole wound against each other), both orders
	vAssume((os > 0) != (oh > 0))
	pg := Polygon{vRing(s, true), vRing(h, true)}
	// area-weighted: C * (S - H) = S*Cs - H*Ch with unsigned areas; times 3*2
	S, H := vAbs(os), vAbs(oh)
	wantX := S*(s[0].X+s[1].X+s[2].X) - H*(h[0].X+h[1].X+h[2].X)
	wantY := S*(s[0].Y+s[1].Y+s[2].Y) - H*(h[0].Y+h[1].Y+h[2].Y)
	c := pg.Centroid()
	vAssert(vAnd(vClose(c.X*3*(S-H), wantX), vClose(c.Y*3*(S-H), wantY)), "polygon-centroid-area-weighted")
	m := MultiPolygon{pg}.Centroid()
	vAssert(vAnd(vClose(m.X*3*(S-H), wantX), vClose(m.Y*3*(S-H), wantY)), "multipolygon-centroid-area-weighted")
	vReach("end")
}

// ---- length, distance, buffer: identical terms to an independent oracle ----

func VH_C03_length() {
	n := vChoose(vBound(5, 6))
	l := LineString(vAnyPath(n, n))
	want := 0.
	for i := 0; i+1 < len(l); i++ {
		want += math.Hypot(l[i+1].X-l[i].X, l[i+1].Y-l[i].Y)
	}
	vAssert(vSameBits(l.Length(), want), "length-is-sum-over-consecutive-pairs")
	ml := MultiLineString{l, LineString(vAnyPath(2, 2))}
	want2 := 0.
	want2 += want
	want2 += math.Hypot(ml[1][1].X-ml[1][0].X, ml[1][1].Y-ml[1][0].Y)
	vAssert(vSameBits(ml.Length(), want2), "multilinestring-length-is-sum-of-members")
	vReach("end")
}

// exact squared distance classification of a point against a segment
func VH_C03_distance_kernel() {
	w := 3
	p, a, b := vGridPt(w, 0), vGridPt(w, 0), vGridPt(w, 0)
	vx, vy, wx, wy := b.X-a.X, b.Y-a.Y, p.X-a.X, p.Y-a.Y
	c1, c2 := wx*vx+wy*vy, vx*vx+vy*vy
	d := distPointToSegment(p, a, b)
	dA := math.Sqrt(wx*wx + wy*wy)
	dB := math.Sqrt((p.X-b.X)*(p.X-b.X) + (p.Y-b.Y)*(p.Y-b.Y))
	if c1 <= 0 {
		vAssert(d == dA, "before-start-distance-to-start")
	} else if c2 <= c1 {
		vAssert(d == dB, "beyond-end-distance-to-end")
	} else {
		// foot of the perpendicular inside the segment: not farther than either end
		vReach("interior")
	}
	vReach("end")
}

func VH_C03_distance() {
	w := 3
	n := 2 + vChoose(vBound(2, 3))
	l := LineString(vGridPath(n, n, w, 0))
	p := vGridPt(w, 0)
	got := l.Distance(p)
	// minimum over exactly the consecutive segments (same kernel)
	allGE := true
	some := false
	for i := 0; i+1 < len(l); i++ {
		s := distPointToSegment(p, l[i], l[i+1])
		allGE = vAnd(allGE, got <= s)
		some = vOr(some, got == s)
	}
	vAssert(vAnd(allGE, some), "distance-is-minimum-over-all-segments")
	vReach("end")
}

func VH_C03_buffer() {
	p := vAnyPt()
	r := vFloat64()
	vAssume(r >= 0)
	n := 3 + vChoose(vBound(4, 6))
	var pg Polygon
	if vCatch(func() { pg = p.Buffer(r, n) }) {
		vAssert(false, "buffer-panics-for-valid-arguments")
		return
	}
	vAssert(len(pg) == 1 && len(pg[0]) == n, "one-ring-of-n-vertices")
	dTheta := math.Pi * 2 / float64(n)
	for i := 0; i < n && i < len(pg[0]); i++ {
		th := float64(i) * dTheta
		vAssert(vAnd(vSameBits(pg[0][i].X, p.X+r*math.Cos(th)), vSameBits(pg[0][i].Y, p.Y+r*math.Sin(th))), "vertex-i-on-the-circle-at-angle-i-2pi-over-n")
	}
	vReach("end")
}

// zero-length segments (a repeated vertex): the distance is the distance to
// that point, for the kernel and through LineString.Distance
func VH_C03_distance_degenerate() {
	w := 3
	p, a := vGridPt(w, 0), vGridPt(w, 0)
	want := math.Sqrt((p.X-a.X)*(p.X-a.X) + (p.Y-a.Y)*(p.Y-a.Y))
	d := distPointToSegment(p, a, a)
	vAssert(d == want, "zero-length-segment-distance-to-the-point")
	l := LineString{a, a}
	vAssert(l.Distance(p) == want, "linestring-with-repeated-vertex")
	b := vGridPt(w, 0)
	l3 := LineString{b, a, a}
	d3 := l3.Distance(p)
	vAssert(d3 <= want, "repeated-vertex-does-not-hide-the-minimum")
	vAssert(d3 == d3, "distance-is-a-number")
	vReach("end")
}
