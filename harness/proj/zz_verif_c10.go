package proj

// C10 (history part): a Transformer is a function of its arguments only.
// Spatial references are concrete definitions; the point is symbolic; float
// arithmetic and libm are uninterpreted (mode U), so equal results are equal
// for every interpretation of the arithmetic.

var vDefs = []string{
	0: "+proj=longlat +datum=WGS84 +no_defs",
	1: "+proj=merc +a=6378137 +b=6378137 +lat_ts=0.0 +lon_0=0.0 +x_0=0.0 +y_0=0 +k=1.0 +units=m +nadgrids=@null +no_defs",
	2: "+proj=utm +zone=15 +datum=NAD83 +units=m +no_defs",
	3: "+proj=utm +zone=16 +datum=NAD83 +units=m +no_defs",
	4: "+proj=lcc +lat_1=33 +lat_2=45 +lat_0=40 +lon_0=-97 +x_0=0 +y_0=0 +datum=NAD83 +units=m +no_defs",
	5: "+proj=tmerc +lat_0=0 +lon_0=9 +k=1 +x_0=3500000 +y_0=0 +ellps=bessel +towgs84=598.1,73.7,418.2,0.202,0.045,-2.455,6.7 +units=m +no_defs",
	6: "+proj=utm +zone=32 +ellps=intl +towgs84=-87,-98,-121 +units=m +no_defs",
	7: "+proj=longlat +ellps=bessel +towgs84=598.1,73.7,418.2,0.202,0.045,-2.455,6.7 +no_defs",
	8: "+proj=longlat +datum=WGS84 +axis=neu +no_defs",
	9: "+proj=aea +lat_1=29.5 +lat_2=45.5 +lat_0=23 +lon_0=-96 +x_0=0 +y_0=0 +datum=NAD83 +units=us-ft +no_defs",
}

// pairs (source, destination)
var vPairs = [][2]int{{0, 1}, {1, 0}, {2, 3}, {4, 0}, {0, 4}, {5, 6}, {6, 5}, {7, 0}, {5, 0}, {8, 1}, {0, 9}}

type vRes struct {
	x, y float64
	err  bool
	pan  bool
}

func vCall(t Transformer, x, y float64) (r vRes) {
	if t == nil {
		return vRes{x: x, y: y}
	}
	r.pan = vCatch(func() {
		var err error
		r.x, r.y, err = t(x, y)
		r.err = err != nil
	})
	return
}

func vSameRes(a, b vRes) bool {
	if a.pan != b.pan || a.err != b.err {
		return false
	}
	if a.pan || a.err {
		return true
	}
	return vAnd(vSameBits(a.x, b.x), vSameBits(a.y, b.y))
}

func vMustParse(def string) *SR {
	sr, err := Parse(def)
	if err != nil {
		panic(err)
	}
	return sr
}

// vHistoryLight: the same input twice on one transformer, and once on a
// freshly built one (no interleaved calls with other inputs).
func vHistoryLight(pair [2]int) {
	a, b := vMustParse(vDefs[pair[0]]), vMustParse(vDefs[pair[1]])
	t, err := a.NewTransform(b)
	vAssert(err == nil, "newtransform-succeeds")
	x, y := vFloat64(), vFloat64()
	first := vCall(t, x, y)
	vAssert(!first.pan, "transformer-does-not-panic")
	second := vCall(t, x, y)
	vAssert(vSameRes(first, second), "second-call-same-result")
	a2, b2 := vMustParse(vDefs[pair[0]]), vMustParse(vDefs[pair[1]])
	t2, err := a2.NewTransform(b2)
	vAssert(err == nil, "fresh-newtransform-succeeds")
	fresh := vCall(t2, x, y)
	vAssert(vSameRes(first, fresh), "same-as-freshly-built-transformer")
}

func vHistory(pair [2]int) {
	a, b := vMustParse(vDefs[pair[0]]), vMustParse(vDefs[pair[1]])
	t, err := a.NewTransform(b)
	vAssert(err == nil, "newtransform-succeeds")
	u, err := b.NewTransform(a)
	vAssert(err == nil, "reverse-newtransform-succeeds")
	x, y := vFloat64(), vFloat64()
	qx, qy := vFloat64(), vFloat64()
	first := vCall(t, x, y)
	vAssert(!first.pan, "transformer-does-not-panic")
	second := vCall(t, x, y)
	vAssert(vSameRes(first, second), "second-call-same-result")
	vCall(u, qx, qy)
	vCall(t, qx, qy)
	third := vCall(t, x, y)
	vAssert(vSameRes(first, third), "result-independent-of-interleaved-calls")
	// a freshly built transformer from freshly parsed references
	a2, b2 := vMustParse(vDefs[pair[0]]), vMustParse(vDefs[pair[1]])
	t2, err := a2.NewTransform(b2)
	vAssert(err == nil, "fresh-newtransform-succeeds")
	fresh := vCall(t2, x, y)
	vAssert(vSameRes(first, fresh), "same-as-freshly-built-transformer")
}

func VH_C10_history_00_longlat_merc() { vHistory(vPairs[0]); vReach("end") }
func VH_C10_history_01_merc_longlat() { vHistory(vPairs[1]); vReach("end") }
func VH_C10_history_02_utm_utm() { vHistory(vPairs[2]); vReach("end") }
func VH_C10_history_03_lcc_longlat() { vHistoryLight(vPairs[3]); vReach("end") }
func VH_C10_history_04_longlat_lcc() { vHistoryLight(vPairs[4]); vReach("end") }
func VH_C10_history_05_tmerc7_utm3() { vHistoryLight(vPairs[5]); vReach("end") }
func VH_C10_history_06_utm3_tmerc7() { vHistoryLight(vPairs[6]); vReach("end") }
func VH_C10_history_07_longlat7_wgs84() { vHistoryLight(vPairs[7]); vReach("end") }
func VH_C10_history_08_tmerc7_wgs84() { vHistoryLight(vPairs[8]); vReach("end") }
func VH_C10_history_09_axisneu_merc() { vHistory(vPairs[9]); vReach("end") }
func VH_C10_history_10_longlat_aea_usft() { vHistoryLight(vPairs[10]); vReach("end") }

// ---- inductive form: a call leaves the state a transformer reads unchanged ----
//
// vSnapshot records everything reachable from the transformer closure (its
// captured variables), from both spatial references, and from the package's
// global variables. The transformer is first called once with a concrete input
// (initialisations that happen on first use — projection constants stored in
// the SR — are idempotent and allowed); from that state one call with a free
// input must leave every reachable scalar and pointer exactly as it was. With
// that, every later call of any history starts from this same state; that the
// first call (from the freshly built state) already returns what later calls
// return is the behavioural part (vHistory/vHistoryLight above).
// A state change is only a candidate: it is a violation when the native run of
// the same harness shows a repeated call or a fresh transformer disagreeing.
func vStateStep(pair [2]int) {
	a, b := vMustParse(vDefs[pair[0]]), vMustParse(vDefs[pair[1]])
	t, err := a.NewTransform(b)
	vAssert(err == nil, "newtransform-succeeds")
	vCall(t, 1.5, 2.5)
	x, y := vFloat64(), vFloat64()
	snap := vSnapshot(t, a, b)
	first := vCall(t, x, y)
	vAssert(!first.pan, "transformer-does-not-panic")
	vAssertCandidate(vSnapshotSame(snap, t, a, b), "call-leaves-transformer-state-unchanged")
	if vNative() {
		second := vCall(t, x, y)
		a2, b2 := vMustParse(vDefs[pair[0]]), vMustParse(vDefs[pair[1]])
		t2, _ := a2.NewTransform(b2)
		fresh := vCall(t2, x, y)
		vAssert(vSameRes(first, second) && vSameRes(first, fresh), "call-leaves-transformer-state-unchanged")
	}
}

func VH_C10_state_00_longlat_merc() { vStateStep(vPairs[0]); vReach("end") }
func VH_C10_state_01_merc_longlat() { vStateStep(vPairs[1]); vReach("end") }
func VH_C10_state_02_utm_utm() { vStateStep(vPairs[2]); vReach("end") }
func VH_C10_state_03_lcc_longlat() { vStateStep(vPairs[3]); vReach("end") }
func VH_C10_state_04_longlat_lcc() { vStateStep(vPairs[4]); vReach("end") }
func VH_C10_state_05_tmerc7_utm3() { vStateStep(vPairs[5]); vReach("end") }
func VH_C10_state_06_utm3_tmerc7() { vStateStep(vPairs[6]); vReach("end") }
func VH_C10_state_07_longlat7_wgs84() { vStateStep(vPairs[7]); vReach("end") }
func VH_C10_state_08_tmerc7_wgs84() { vStateStep(vPairs[8]); vReach("end") }
func VH_C10_state_09_axisneu_merc() { vStateStep(vPairs[9]); vReach("end") }
func VH_C10_state_10_longlat_aea_usft() { vStateStep(vPairs[10]); vReach("end") }
