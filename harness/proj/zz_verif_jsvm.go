package proj

// A small interpreter for the ES5 subset used by proj4js-2.3.12/lib
// (common/*.js, constants/*.js, and the simpler projections). It is ordinary
// Go: natively it evaluates the JavaScript concretely; under the symbolic
// executor the same code runs with symbolic numbers, so that a proj4js
// function becomes a term over IEEE operations and (uninterpreted) libm
// functions that can be compared with the term of its Go port (C09).
//
// JavaScript numbers are IEEE doubles, as are Go float64: +,-,*,/ and the
// comparisons map one to one; Math.* maps to package math.

import (
	"math"
	"strconv"
)

// ---- tokens ----

type jsTok struct {
	k string // num str id op eof
	s string
	n float64
}

func jsIsIDStart(c byte) bool {
	return c == '_' || c == '$' || (c >= 'a' && c <= 'z') || (c >= 'A' && c <= 'Z')
}
func jsIsDigit(c byte) bool { return c >= '0' && c <= '9' }

func jsLex(src string) []jsTok {
	var out []jsTok
	i := 0
	n := len(src)
	for i < n {
		c := src[i]
		switch {
		case c == ' ' || c == '\t' || c == '\n' || c == '\r':
			i++
		case c == '/' && i+1 < n && src[i+1] == '/':
			for i < n && src[i] != '\n' {
				i++
			}
		case c == '/' && i+1 < n && src[i+1] == '*':
			i += 2
			for i+1 < n && !(src[i] == '*' && src[i+1] == '/') {
				i++
			}
			i += 2
		case jsIsDigit(c) || (c == '.' && i+1 < n && jsIsDigit(src[i+1])):
			j := i
			for j < n && (jsIsDigit(src[j]) || src[j] == '.') {
				j++
			}
			if j < n && (src[j] == 'e' || src[j] == 'E') {
				k := j + 1
				if k < n && (src[k] == '+' || src[k] == '-') {
					k++
				}
				if k < n && jsIsDigit(src[k]) {
					for k < n && jsIsDigit(src[k]) {
						k++
					}
					j = k
				}
			}
			f, err := strconv.ParseFloat(src[i:j], 64)
			if err != nil {
				panic("js: bad number " + src[i:j])
			}
			out = append(out, jsTok{k: "num", n: f, s: src[i:j]})
			i = j
		case jsIsIDStart(c):
			j := i
			for j < n && (jsIsIDStart(src[j]) || jsIsDigit(src[j])) {
				j++
			}
			out = append(out, jsTok{k: "id", s: src[i:j]})
			i = j
		case c == '\'' || c == '"':
			j := i + 1
			for j < n && src[j] != c {
				j++
			}
			out = append(out, jsTok{k: "str", s: src[i+1 : j]})
			i = j + 1
		default:
			op := string(c)
			if i+2 < n {
				t := src[i : i+3]
				if t == "===" || t == "!==" {
					op = t
				}
			}
			if len(op) == 1 && i+1 < n {
				t := src[i : i+2]
				switch t {
				case "==", "!=", "<=", ">=", "&&", "||", "+=", "-=", "*=", "/=", "++", "--":
					op = t
				}
			}
			out = append(out, jsTok{k: "op", s: op})
			i += len(op)
		}
	}
	out = append(out, jsTok{k: "eof"})
	return out
}

// ---- AST ----

type jsNode struct {
	k    string // num str id this bin un assign cond call member index func obj arr
	s    string // operator, identifier, property name
	n    float64
	a, b *jsNode
	c    *jsNode
	list []*jsNode // call args, array elements, object values
	keys []string  // object keys, function params
	body []*jsStmt
}

type jsStmt struct {
	k          string // var expr if for while dowhile return block break continue func throw
	names      []string
	inits      []*jsNode
	e          *jsNode
	init       *jsStmt
	upd        *jsNode
	body, alt  []*jsStmt
}

type jsParser struct {
	t []jsTok
	p int
}

func (p *jsParser) peek() jsTok { return p.t[p.p] }
func (p *jsParser) next() jsTok  { t := p.t[p.p]; p.p++; return t }
func (p *jsParser) isOp(s string) bool {
	t := p.t[p.p]
	return t.k == "op" && t.s == s
}
func (p *jsParser) isID(s string) bool {
	t := p.t[p.p]
	return t.k == "id" && t.s == s
}
func (p *jsParser) expectOp(s string) {
	if !p.isOp(s) {
		panic("js: expected " + s + " got " + p.t[p.p].s)
	}
	p.p++
}
func (p *jsParser) skipSemi() {
	if p.isOp(";") {
		p.p++
	}
}

func (p *jsParser) program() []*jsStmt {
	var out []*jsStmt
	for p.peek().k != "eof" {
		out = append(out, p.stmt())
	}
	return out
}

func (p *jsParser) block() []*jsStmt {
	if p.isOp("{") {
		p.p++
		var out []*jsStmt
		for !p.isOp("}") {
			out = append(out, p.stmt())
		}
		p.p++
		return out
	}
	return []*jsStmt{p.stmt()}
}

func (p *jsParser) varDecl() *jsStmt {
	p.p++ // var
	s := &jsStmt{k: "var"}
	for {
		name := p.next().s
		var init *jsNode
		if p.isOp("=") {
			p.p++
			init = p.assign()
		}
		s.names = append(s.names, name)
		s.inits = append(s.inits, init)
		if !p.isOp(",") {
			break
		}
		p.p++
	}
	return s
}

func (p *jsParser) stmt() *jsStmt {
	t := p.peek()
	if t.k == "op" && t.s == "{" {
		return &jsStmt{k: "block", body: p.block()}
	}
	if t.k == "op" && t.s == ";" {
		p.p++
		return &jsStmt{k: "block"}
	}
	if t.k == "id" {
		switch t.s {
		case "var":
			s := p.varDecl()
			p.skipSemi()
			return s
		case "if":
			p.p++
			p.expectOp("(")
			c := p.expr()
			p.expectOp(")")
			s := &jsStmt{k: "if", e: c, body: p.block()}
			if p.isID("else") {
				p.p++
				s.alt = p.block()
			}
			return s
		case "for":
			p.p++
			p.expectOp("(")
			s := &jsStmt{k: "for"}
			if p.isID("var") {
				s.init = p.varDecl()
			} else if !p.isOp(";") {
				s.init = &jsStmt{k: "expr", e: p.expr()}
			}
			p.expectOp(";")
			if !p.isOp(";") {
				s.e = p.expr()
			}
			p.expectOp(";")
			if !p.isOp(")") {
				s.upd = p.expr()
			}
			p.expectOp(")")
			s.body = p.block()
			return s
		case "while":
			p.p++
			p.expectOp("(")
			c := p.expr()
			p.expectOp(")")
			return &jsStmt{k: "while", e: c, body: p.block()}
		case "do":
			p.p++
			b := p.block()
			if !p.isID("while") {
				panic("js: do without while")
			}
			p.p++
			p.expectOp("(")
			c := p.expr()
			p.expectOp(")")
			p.skipSemi()
			return &jsStmt{k: "dowhile", e: c, body: b}
		case "return":
			p.p++
			s := &jsStmt{k: "return"}
			if !p.isOp(";") && !p.isOp("}") {
				s.e = p.expr()
			}
			p.skipSemi()
			return s
		case "break":
			p.p++
			p.skipSemi()
			return &jsStmt{k: "break"}
		case "continue":
			p.p++
			p.skipSemi()
			return &jsStmt{k: "continue"}
		case "throw":
			p.p++
			e := p.expr()
			p.skipSemi()
			return &jsStmt{k: "throw", e: e}
		case "function":
			// function declaration
			p.p++
			name := p.next().s
			f := p.funcRest()
			return &jsStmt{k: "var", names: []string{name}, inits: []*jsNode{f}}
		}
	}
	e := p.expr()
	p.skipSemi()
	return &jsStmt{k: "expr", e: e}
}

func (p *jsParser) funcRest() *jsNode {
	p.expectOp("(")
	f := &jsNode{k: "func"}
	for !p.isOp(")") {
		f.keys = append(f.keys, p.next().s)
		if p.isOp(",") {
			p.p++
		}
	}
	p.p++
	f.body = p.block()
	return f
}

func (p *jsParser) expr() *jsNode {
	e := p.assign()
	for p.isOp(",") {
		p.p++
		r := p.assign()
		e = &jsNode{k: "bin", s: ",", a: e, b: r}
	}
	return e
}

func (p *jsParser) assign() *jsNode {
	l := p.cond()
	t := p.peek()
	if t.k == "op" && (t.s == "=" || t.s == "+=" || t.s == "-=" || t.s == "*=" || t.s == "/=") {
		p.p++
		r := p.assign()
		return &jsNode{k: "assign", s: t.s, a: l, b: r}
	}
	return l
}

func (p *jsParser) cond() *jsNode {
	c := p.binary(0)
	if p.isOp("?") {
		p.p++
		a := p.assign()
		p.expectOp(":")
		b := p.assign()
		return &jsNode{k: "cond", a: c, b: a, c: b}
	}
	return c
}

func jsPrec(t jsTok) int {
	if t.k == "id" && (t.s == "in" || t.s == "instanceof") {
		return 5
	}
	if t.k != "op" {
		return -1
	}
	switch t.s {
	case "||":
		return 1
	case "&&":
		return 2
	case "==", "!=", "===", "!==":
		return 4
	case "<", "<=", ">", ">=":
		return 5
	case "+", "-":
		return 6
	case "*", "/", "%":
		return 7
	}
	return -1
}

func (p *jsParser) binary(min int) *jsNode {
	l := p.unary()
	for {
		t := p.peek()
		pr := jsPrec(t)
		if pr < 0 || pr < min {
			return l
		}
		p.p++
		r := p.binary(pr + 1)
		l = &jsNode{k: "bin", s: t.s, a: l, b: r}
	}
}

func (p *jsParser) unary() *jsNode {
	t := p.peek()
	if t.k == "op" && (t.s == "!" || t.s == "-" || t.s == "+") {
		p.p++
		return &jsNode{k: "un", s: t.s, a: p.unary()}
	}
	if t.k == "op" && (t.s == "++" || t.s == "--") {
		p.p++
		x := p.unary()
		op := "+="
		if t.s == "--" {
			op = "-="
		}
		return &jsNode{k: "assign", s: op, a: x, b: &jsNode{k: "num", n: 1}}
	}
	if t.k == "id" && t.s == "typeof" {
		p.p++
		return &jsNode{k: "un", s: "typeof", a: p.unary()}
	}
	return p.postfix()
}

func (p *jsParser) postfix() *jsNode {
	e := p.primary()
	for {
		switch {
		case p.isOp("."):
			p.p++
			e = &jsNode{k: "member", s: p.next().s, a: e}
		case p.isOp("["):
			p.p++
			i := p.expr()
			p.expectOp("]")
			e = &jsNode{k: "index", a: e, b: i}
		case p.isOp("("):
			p.p++
			c := &jsNode{k: "call", a: e}
			for !p.isOp(")") {
				c.list = append(c.list, p.assign())
				if p.isOp(",") {
					p.p++
				}
			}
			p.p++
			e = c
		case p.isOp("++") || p.isOp("--"):
			// value of the expression is not used in the sources: treat as prefix
			op := "+="
			if p.isOp("--") {
				op = "-="
			}
			p.p++
			e = &jsNode{k: "assign", s: op, a: e, b: &jsNode{k: "num", n: 1}}
		default:
			return e
		}
	}
}

func (p *jsParser) primary() *jsNode {
	t := p.next()
	switch t.k {
	case "num":
		return &jsNode{k: "num", n: t.n}
	case "str":
		return &jsNode{k: "str", s: t.s}
	case "id":
		switch t.s {
		case "function":
			if p.peek().k == "id" {
				p.p++
			}
			return p.funcRest()
		case "this":
			return &jsNode{k: "this"}
		case "new":
			e := p.postfix()
			if e.k == "call" {
				return &jsNode{k: "new", a: e.a, list: e.list}
			}
			return e
		}
		return &jsNode{k: "id", s: t.s}
	case "op":
		switch t.s {
		case "(":
			e := p.expr()
			p.expectOp(")")
			return e
		case "{":
			o := &jsNode{k: "obj"}
			for !p.isOp("}") {
				o.keys = append(o.keys, p.next().s)
				p.expectOp(":")
				o.list = append(o.list, p.assign())
				if p.isOp(",") {
					p.p++
				}
			}
			p.p++
			return o
		case "[":
			a := &jsNode{k: "arr"}
			for !p.isOp("]") {
				a.list = append(a.list, p.assign())
				if p.isOp(",") {
					p.p++
				}
			}
			p.p++
			return a
		}
	}
	panic("js: unexpected token " + t.s)
}

// ---- values and evaluation ----

type jsObj struct {
	m     map[string]interface{}
	keys  []string
	arr   []interface{}
	proto *jsObj
}

type jsFunc struct {
	params []string
	body   []*jsStmt
	env    *jsEnv
	native func(args []interface{}) interface{}
	props  *jsObj // properties of the function object (prototype)
}

type jsUndef struct{}

type jsEnv struct {
	vars   map[string]interface{}
	parent *jsEnv
	this   interface{}
}

func (e *jsEnv) lookup(name string) (*jsEnv, bool) {
	for s := e; s != nil; s = s.parent {
		if _, ok := s.vars[name]; ok {
			return s, true
		}
	}
	return nil, false
}

type jsVM struct {
	root    string // directory of the library
	modules map[string]interface{}
}

func jsNum(v interface{}) float64 {
	switch t := v.(type) {
	case float64:
		return t
	case bool:
		if t {
			return 1
		}
		return 0
	case jsUndef:
		return math.NaN()
	case nil:
		return 0
	}
	panic("js: not a number")
}

func jsTruthy(v interface{}) bool {
	switch t := v.(type) {
	case float64:
		return !math.IsNaN(t) && t != 0
	case bool:
		return t
	case string:
		return t != ""
	case jsUndef:
		return false
	case nil:
		return false
	}
	return true
}

func (o *jsObj) set(k string, v interface{}) {
	if _, ok := o.m[k]; !ok {
		o.keys = append(o.keys, k)
	}
	o.m[k] = v
}

func jsNewObj() *jsObj { return &jsObj{m: map[string]interface{}{}} }

func (vm *jsVM) global() *jsEnv {
	mathObj := jsNewObj()
	mathObj.set("PI", math.Pi)
	f1 := func(name string, f func(float64) float64) {
		mathObj.set(name, &jsFunc{native: func(a []interface{}) interface{} { return f(jsNum(a[0])) }})
	}
	f2 := func(name string, f func(float64, float64) float64) {
		mathObj.set(name, &jsFunc{native: func(a []interface{}) interface{} { return f(jsNum(a[0]), jsNum(a[1])) }})
	}
	f1("sin", math.Sin)
	f1("cos", math.Cos)
	f1("tan", math.Tan)
	f1("asin", math.Asin)
	f1("acos", math.Acos)
	f1("atan", math.Atan)
	f1("exp", math.Exp)
	f1("log", math.Log)
	f1("sqrt", math.Sqrt)
	f1("abs", math.Abs)
	f1("floor", math.Floor)
	f2("atan2", math.Atan2)
	f2("pow", math.Pow)
	f2("min", math.Min)
	f2("max", math.Max)
	g := &jsEnv{vars: map[string]interface{}{}}
	g.vars["Math"] = mathObj
	g.vars["NaN"] = math.NaN()
	g.vars["Infinity"] = math.Inf(1)
	g.vars["undefined"] = jsUndef{}
	g.vars["null"] = nil
	g.vars["true"] = true
	g.vars["false"] = false
	g.vars["isNaN"] = &jsFunc{native: func(a []interface{}) interface{} { return math.IsNaN(jsNum(a[0])) }}
	g.vars["parseFloat"] = &jsFunc{native: func(a []interface{}) interface{} {
		if s, ok := a[0].(string); ok {
			f, err := strconv.ParseFloat(s, 64)
			if err != nil {
				return math.NaN()
			}
			return f
		}
		return jsNum(a[0])
	}}
	return g
}

// jsDir / jsJoin: minimal path handling for require('./x') and require('../common/x')
func jsDir(p string) string {
	for i := len(p) - 1; i >= 0; i-- {
		if p[i] == '/' {
			return p[:i]
		}
	}
	return "."
}

func jsJoin(dir, rel string) string {
	for len(rel) > 0 {
		if len(rel) >= 2 && rel[:2] == "./" {
			rel = rel[2:]
		} else if len(rel) >= 3 && rel[:3] == "../" {
			dir = jsDir(dir)
			rel = rel[3:]
		} else {
			break
		}
	}
	return dir + "/" + rel
}

// vMemoJSParse reads and parses one source file. The result is never modified
// (the evaluator only reads the syntax tree), which lets the executor run this
// once per worker instead of once per explored path.
func vMemoJSParse(file string) []*jsStmt {
	return (&jsParser{t: jsLex(vReadFile(file))}).program()
}

// require loads a module (path without .js, relative to the library root).
func (vm *jsVM) require(path string) interface{} {
	if m, ok := vm.modules[path]; ok {
		return m
	}
	prog := vMemoJSParse(vm.root + "/" + path + ".js")
	env := &jsEnv{vars: map[string]interface{}{}, parent: vm.global()}
	module := jsNewObj()
	exports := jsNewObj()
	module.set("exports", exports)
	env.vars["module"] = module
	env.vars["exports"] = exports
	dir := jsDir(path)
	env.vars["require"] = &jsFunc{native: func(a []interface{}) interface{} {
		return vm.require(jsJoin(dir, a[0].(string)))
	}}
	vm.modules[path] = exports // cycles
	vm.execBlock(prog, env)
	res := module.m["exports"]
	vm.modules[path] = res
	return res
}

const (
	jsNone = iota
	jsReturn
	jsBreak
	jsContinue
)

func (vm *jsVM) execBlock(ss []*jsStmt, env *jsEnv) (int, interface{}) {
	for _, s := range ss {
		c, v := vm.exec(s, env)
		if c != jsNone {
			return c, v
		}
	}
	return jsNone, nil
}

func (vm *jsVM) exec(s *jsStmt, env *jsEnv) (int, interface{}) {
	switch s.k {
	case "var":
		for i, n := range s.names {
			if s.inits[i] != nil {
				env.vars[n] = vm.eval(s.inits[i], env)
			} else if _, ok := env.vars[n]; !ok {
				env.vars[n] = jsUndef{}
			}
		}
	case "expr":
		vm.eval(s.e, env)
	case "block":
		return vm.execBlock(s.body, env)
	case "if":
		if jsTruthy(vm.eval(s.e, env)) {
			return vm.execBlock(s.body, env)
		} else if s.alt != nil {
			return vm.execBlock(s.alt, env)
		}
	case "for", "while":
		if s.init != nil {
			vm.exec(s.init, env)
		}
		for iter := 0; ; iter++ {
			if iter > 200 {
				panic("js: loop bound exceeded")
			}
			if s.e != nil && !jsTruthy(vm.eval(s.e, env)) {
				break
			}
			c, v := vm.execBlock(s.body, env)
			if c == jsReturn {
				return c, v
			}
			if c == jsBreak {
				break
			}
			if s.upd != nil {
				vm.eval(s.upd, env)
			}
		}
	case "dowhile":
		for iter := 0; ; iter++ {
			if iter > 200 {
				panic("js: loop bound exceeded")
			}
			c, v := vm.execBlock(s.body, env)
			if c == jsReturn {
				return c, v
			}
			if c == jsBreak {
				break
			}
			if !jsTruthy(vm.eval(s.e, env)) {
				break
			}
		}
	case "return":
		if s.e == nil {
			return jsReturn, jsUndef{}
		}
		return jsReturn, vm.eval(s.e, env)
	case "break":
		return jsBreak, nil
	case "continue":
		return jsContinue, nil
	case "throw":
		panic("js: throw")
	}
	return jsNone, nil
}

func (vm *jsVM) call(f interface{}, this interface{}, args []interface{}) interface{} {
	fn, ok := f.(*jsFunc)
	if !ok {
		panic("js: call of a non-function")
	}
	if fn.native != nil {
		return fn.native(args)
	}
	env := &jsEnv{vars: map[string]interface{}{}, parent: fn.env, this: this}
	for i, p := range fn.params {
		if i < len(args) {
			env.vars[p] = args[i]
		} else {
			env.vars[p] = jsUndef{}
		}
	}
	c, v := vm.execBlock(fn.body, env)
	if c == jsReturn {
		return v
	}
	return jsUndef{}
}

func (vm *jsVM) thisOf(env *jsEnv) interface{} {
	for s := env; s != nil; s = s.parent {
		if s.this != nil {
			return s.this
		}
	}
	return jsUndef{}
}

func (vm *jsVM) getMember(o interface{}, k string) interface{} {
	switch t := o.(type) {
	case *jsObj:
		if k == "length" && t.arr != nil {
			return float64(len(t.arr))
		}
		for o := t; o != nil; o = o.proto {
			if v, ok := o.m[k]; ok {
				return v
			}
		}
		return jsUndef{}
	case *jsFunc:
		if t.props != nil {
			if v, ok := t.props.m[k]; ok {
				return v
			}
		}
		return jsUndef{}
	}
	panic("js: member " + k + " of a non-object")
}

func (vm *jsVM) assignTo(target *jsNode, v interface{}, env *jsEnv) {
	switch target.k {
	case "id":
		if s, ok := env.lookup(target.s); ok {
			s.vars[target.s] = v
		} else {
			env.vars[target.s] = v
		}
	case "member":
		switch o := vm.eval(target.a, env).(type) {
		case *jsObj:
			o.set(target.s, v)
		case *jsFunc:
			if o.props == nil {
				o.props = jsNewObj()
			}
			o.props.set(target.s, v)
		default:
			panic("js: assignment to a member of a non-object")
		}
	case "index":
		o := vm.eval(target.a, env).(*jsObj)
		i := vm.eval(target.b, env)
		if s, ok := i.(string); ok {
			o.set(s, v)
		} else {
			o.arr[int(jsNum(i))] = v
		}
	default:
		panic("js: bad assignment target")
	}
}

func (vm *jsVM) eval(n *jsNode, env *jsEnv) interface{} {
	switch n.k {
	case "num":
		return n.n
	case "str":
		return n.s
	case "this":
		return vm.thisOf(env)
	case "id":
		if s, ok := env.lookup(n.s); ok {
			return s.vars[n.s]
		}
		return jsUndef{}
	case "func":
		return &jsFunc{params: n.keys, body: n.body, env: env}
	case "obj":
		o := jsNewObj()
		for i, k := range n.keys {
			o.set(k, vm.eval(n.list[i], env))
		}
		return o
	case "arr":
		o := jsNewObj()
		o.arr = make([]interface{}, len(n.list))
		for i, e := range n.list {
			o.arr[i] = vm.eval(e, env)
		}
		return o
	case "member":
		return vm.getMember(vm.eval(n.a, env), n.s)
	case "index":
		o := vm.eval(n.a, env)
		i := vm.eval(n.b, env)
		if s, ok := i.(string); ok {
			return vm.getMember(o, s)
		}
		return o.(*jsObj).arr[int(jsNum(i))]
	case "new":
		f := vm.eval(n.a, env)
		fn, ok := f.(*jsFunc)
		if !ok {
			return jsNewObj() // new Error(...) and the like: value is not used
		}
		o := jsNewObj()
		if fn.props != nil {
			if pr, ok := fn.props.m["prototype"].(*jsObj); ok {
				o.proto = pr
			}
		}
		o.set("constructor", fn)
		args := make([]interface{}, len(n.list))
		for i, a := range n.list {
			args[i] = vm.eval(a, env)
		}
		if r, ok := vm.call(fn, o, args).(*jsObj); ok {
			return r
		}
		return o
	case "call":
		var this interface{}
		var f interface{}
		if n.a.k == "member" {
			this = vm.eval(n.a.a, env)
			if ao, ok := this.(*jsObj); ok && ao.arr != nil && n.a.s == "map" {
				fn := vm.eval(n.list[0], env)
				r := jsNewObj()
				r.arr = make([]interface{}, len(ao.arr))
				for i, e := range ao.arr {
					r.arr[i] = vm.call(fn, jsUndef{}, []interface{}{e})
				}
				return r
			}
			f = vm.getMember(this, n.a.s)
		} else {
			f = vm.eval(n.a, env)
		}
		args := make([]interface{}, len(n.list))
		for i, a := range n.list {
			args[i] = vm.eval(a, env)
		}
		return vm.call(f, this, args)
	case "cond":
		if jsTruthy(vm.eval(n.a, env)) {
			return vm.eval(n.b, env)
		}
		return vm.eval(n.c, env)
	case "assign":
		v := vm.eval(n.b, env)
		if n.s != "=" {
			old := jsNum(vm.eval(n.a, env))
			r := jsNum(v)
			switch n.s {
			case "+=":
				v = old + r
			case "-=":
				v = old - r
			case "*=":
				v = old * r
			case "/=":
				v = old / r
			}
		}
		vm.assignTo(n.a, v, env)
		return v
	case "un":
		switch n.s {
		case "!":
			return !jsTruthy(vm.eval(n.a, env))
		case "-":
			return -jsNum(vm.eval(n.a, env))
		case "+":
			return jsNum(vm.eval(n.a, env))
		case "typeof":
			switch vm.eval(n.a, env).(type) {
			case float64:
				return "number"
			case string:
				return "string"
			case jsUndef:
				return "undefined"
			case bool:
				return "boolean"
			case *jsFunc:
				return "function"
			}
			return "object"
		}
	case "bin":
		switch n.s {
		case "&&":
			l := vm.eval(n.a, env)
			if !jsTruthy(l) {
				return l
			}
			return vm.eval(n.b, env)
		case "||":
			l := vm.eval(n.a, env)
			if jsTruthy(l) {
				return l
			}
			return vm.eval(n.b, env)
		case ",":
			vm.eval(n.a, env)
			return vm.eval(n.b, env)
		case "instanceof":
			l, r := vm.eval(n.a, env), vm.eval(n.b, env)
			o, ok1 := l.(*jsObj)
			fn, ok2 := r.(*jsFunc)
			if !ok1 || !ok2 || fn.props == nil {
				return false
			}
			pr, _ := fn.props.m["prototype"].(*jsObj)
			for q := o.proto; q != nil; q = q.proto {
				if q == pr {
					return true
				}
			}
			// an object made by `new f` before f.prototype was assigned
			return o.m["constructor"] == interface{}(fn)
		case "in":
			k := vm.eval(n.a, env).(string)
			_, ok := vm.eval(n.b, env).(*jsObj).m[k]
			return ok
		}
		l, r := vm.eval(n.a, env), vm.eval(n.b, env)
		switch n.s {
		case "===", "==", "!==", "!=":
			eq := false
			switch lt := l.(type) {
			case float64:
				if rt, ok := r.(float64); ok {
					eq = lt == rt
				}
			case string:
				if rt, ok := r.(string); ok {
					eq = lt == rt
				}
			case bool:
				if rt, ok := r.(bool); ok {
					eq = lt == rt
				}
			case jsUndef:
				_, eq = r.(jsUndef)
				if n.s == "==" || n.s == "!=" {
					eq = eq || r == nil
				}
			case nil:
				eq = r == nil
				if n.s == "==" || n.s == "!=" {
					_, u := r.(jsUndef)
					eq = eq || u
				}
			default:
				eq = l == r
			}
			if n.s == "===" || n.s == "==" {
				return eq
			}
			return !eq
		}
		if ls, ok := l.(string); ok && n.s == "+" {
			if rs, ok := r.(string); ok {
				return ls + rs
			}
		}
		x, y := jsNum(l), jsNum(r)
		switch n.s {
		case "+":
			return x + y
		case "-":
			return x - y
		case "*":
			return x * y
		case "/":
			return x / y
		case "%":
			return math.Mod(x, y)
		case "<":
			return x < y
		case "<=":
			return x <= y
		case ">":
			return x > y
		case ">=":
			return x >= y
		}
	}
	panic("js: cannot evaluate " + n.k + " " + n.s)
}

func jsNewVM() *jsVM {
	return &jsVM{root: "/repo/proj/proj4js-2.3.12/lib", modules: map[string]interface{}{}}
}

// jsCallNum calls a module that exports one function, with numeric arguments.
func (vm *jsVM) jsCallNum(module string, args ...float64) float64 {
	f := vm.require(module)
	as := make([]interface{}, len(args))
	for i, a := range args {
		as[i] = a
	}
	return jsNum(vm.call(f, jsUndef{}, as))
}
