package proj

import (
	"math"
	"reflect"
	"strings"
)

// C20: a CRS written as PROJ.4 and as OGC WKT yields spatial references in
// which every field the transformers read is the same value; registered
// names denote their definitions; NewTransform is nil exactly for Equal
// references. Numeric parameters are symbolic: their decimal text is a
// placeholder that strconv.ParseFloat maps back to the float.

func vSameF(a, b float64) bool {
	return vOr(vAnd(math.IsNaN(a), math.IsNaN(b)), vSameBits(a, b))
}

// vSameForTransform compares every field the transformers and datum shifts read.
func vSameForTransform(p, w *SR, projected bool, datumShift bool) {
	tp, okp := projections[strings.ToLower(p.Name)]
	tw, okw := projections[strings.ToLower(w.Name)]
	vAssert(okp && okw, "projection-name-registered")
	vAssert(reflect.ValueOf(tp).Pointer() == reflect.ValueOf(tw).Pointer(), "same-projection-function")
	if projected {
		vSameProjected(p, w)
	}
	vAssert(vSameF(p.A, w.A), "a")
	vAssert(vSameF(p.B, w.B), "b")
	vAssert(vSameF(p.Es, w.Es), "es")
	vAssert(vSameF(p.E, w.E), "e")
	vAssert(vSameF(p.Ep2, w.Ep2), "ep2")
	vAssert(vSameF(p.FromGreenwich, w.FromGreenwich), "from-greenwich")
	vAssert(p.Axis == w.Axis, "axis")
	vAssert(p.sphere == w.sphere, "sphere")
	vAssert((p.datum == nil) == (w.datum == nil), "datum-present")
	if p.datum != nil && w.datum != nil {
		// without a (non-zero) TOWGS84 clause the WKT still names a datum while the
		// PROJ.4 string has none: the spellings do not describe the same datum then
		vAssert(vImplies(datumShift, p.datum.datum_type == w.datum.datum_type), "datum-type")
		vAssert(len(p.datum.datum_params) == len(w.datum.datum_params), "datum-param-count")
		if len(p.datum.datum_params) == len(w.datum.datum_params) {
			for i := range p.datum.datum_params {
				vAssert(vSameF(p.datum.datum_params[i], w.datum.datum_params[i]), "datum-param")
			}
		}
		vAssert(vAnd(vSameF(p.datum.a, w.datum.a), vSameF(p.datum.b, w.datum.b), vSameF(p.datum.es, w.datum.es), vSameF(p.datum.ep2, w.datum.ep2)), "datum-ellipsoid")
	}
}

// fields only projected systems read
func vSameProjected(p, w *SR) {
	vAssert(vSameF(p.Lat0, w.Lat0), "lat0")
	vAssert(vSameF(p.Lat1, w.Lat1), "lat1")
	vAssert(vSameF(p.Lat2, w.Lat2), "lat2")
	vAssert(vSameF(p.Long0, w.Long0), "long0")
	vAssert(vSameF(p.X0, w.X0), "x0")
	vAssert(vSameF(p.Y0, w.Y0), "y0")
	vAssert(vSameF(p.K0, w.K0), "k0")
	vAssert(vSameF(p.ToMeter, w.ToMeter), "to-meter")
}

type vCRS struct {
	proj4Name, wktName string
	// parameter (proj4 key, wkt name, angular)
	params [][3]string
}

var vProjections = []vCRS{
	{"merc", "Mercator_1SP", [][3]string{{"lon_0", "central_meridian", "a"}, {"k", "scale_factor", ""}, {"x_0", "false_easting", "l"}, {"y_0", "false_northing", "l"}}},
	{"lcc", "Lambert_Conformal_Conic_2SP", [][3]string{{"lat_1", "standard_parallel_1", "a"}, {"lat_2", "standard_parallel_2", "a"}, {"lat_0", "latitude_of_origin", "a"}, {"lon_0", "central_meridian", "a"}, {"x_0", "false_easting", "l"}, {"y_0", "false_northing", "l"}}},
	{"aea", "Albers_Conic_Equal_Area", [][3]string{{"lat_1", "standard_parallel_1", "a"}, {"lat_2", "standard_parallel_2", "a"}, {"lat_0", "latitude_of_origin", "a"}, {"lon_0", "central_meridian", "a"}, {"x_0", "false_easting", "l"}, {"y_0", "false_northing", "l"}}},
	{"eqdc", "Equidistant_Conic", [][3]string{{"lat_1", "standard_parallel_1", "a"}, {"lat_2", "standard_parallel_2", "a"}, {"lat_0", "latitude_of_origin", "a"}, {"lon_0", "central_meridian", "a"}, {"x_0", "false_easting", "l"}, {"y_0", "false_northing", "l"}}},
	{"tmerc", "Transverse_Mercator", [][3]string{{"lat_0", "latitude_of_origin", "a"}, {"lon_0", "central_meridian", "a"}, {"k", "scale_factor", ""}, {"x_0", "false_easting", "l"}, {"y_0", "false_northing", "l"}}},
}

type vUnit struct {
	proj4, wkt string
	toMeter    float64
}

var vUnits = []vUnit{{"m", "Meter", 1}, {"ft", "Foot", 0.3048}, {"us-ft", "Foot_US", 1200. / 3937}}

// one projected CRS in both spellings over the same symbolic numbers
func VH_C20_projected() {
	c := vProjections[vChoose(len(vProjections))]
	u := vUnits[vChoose(vBound(2, 3))]
	a, rf := vNumStr(), vNumStr()
	ntow := []int{0, 3, 7}[vChoose(3)]
	tow := make([]string, ntow)
	for i := range tow {
		tow[i] = vNumStr()
	}
	p4 := "+proj=" + c.proj4Name
	wk := `PROJCS["verif",GEOGCS["GCS_verif",DATUM["D_verif",SPHEROID["verif_ellipsoid",` + a + `,` + rf + `]`
	if ntow > 0 {
		wk += `,TOWGS84[` + strings.Join(tow, ",") + `]`
	}
	wk += `],PRIMEM["Greenwich",0],UNIT["Degree",0.0174532925199433]],PROJECTION["` + c.wktName + `"]`
	for _, pr := range c.params {
		v := vNumStr()
		wk += `,PARAMETER["` + pr[1] + `",` + v + `]`
		if pr[2] == "l" {
			// PROJ.4 false origins are in metres, WKT ones in the declared unit
			p4 += " +" + pr[0] + "=" + vNumStrOf(vNumOf(v)*u.toMeter)
		} else {
			p4 += " +" + pr[0] + "=" + v
		}
	}
	wk += `,UNIT["` + u.wkt + `",` + vNumStrOf(u.toMeter) + `]]`
	p4 += " +a=" + a + " +rf=" + rf
	if ntow > 0 {
		p4 += " +towgs84=" + strings.Join(tow, ",")
	}
	p4 += " +units=" + u.proj4 + " +no_defs"
	p, err := Parse(p4)
	vAssert(err == nil, "proj4-parses")
	w, err := Parse(wk)
	vAssert(err == nil, "wkt-parses")
	if p != nil && w != nil {
		// a datum shift is described when some TOWGS84 term is non-zero; an
		// all-zero clause leaves the PROJ.4 string without any datum while the
		// WKT still names one
		shift := false
		for _, t := range tow {
			shift = vOr(shift, vNumOf(t) != 0)
		}
		vSameForTransform(p, w, true, shift)
	}
	vReach("end")
}

// a plain geographic CRS in both spellings
func VH_C20_geographic() {
	a, rf := vNumStr(), vNumStr()
	p4 := "+proj=longlat +a=" + a + " +rf=" + rf + " +no_defs"
	wk := `GEOGCS["GCS_verif",DATUM["D_verif",SPHEROID["verif_ellipsoid",` + a + `,` + rf + `]],PRIMEM["Greenwich",0],UNIT["Degree",0.0174532925199433]]`
	p, err := Parse(p4)
	vAssert(err == nil, "proj4-parses")
	w, err := Parse(wk)
	vAssert(err == nil, "wkt-parses")
	if p != nil && w != nil {
		vSameForTransform(p, w, false, false)
	}
	vReach("end")
}

// registered names denote the same references as their definitions; parsing
// twice gives Equal references; NewTransform is nil exactly for Equal ones
func VH_C20_names() {
	names := map[string]string{
		"WGS84":       "+title=WGS 84 (long/lat) +proj=longlat +ellps=WGS84 +datum=WGS84 +units=degrees",
		"EPSG:4326":   "+title=WGS 84 (long/lat) +proj=longlat +ellps=WGS84 +datum=WGS84 +units=degrees",
		"EPSG:3857":   "+title=WGS 84 / Pseudo-Mercator +proj=merc +a=6378137 +b=6378137 +lat_ts=0.0 +lon_0=0.0 +x_0=0.0 +y_0=0 +k=1.0 +units=m +nadgrids=@null +no_defs",
		"EPSG:3785":   "+title=WGS 84 / Pseudo-Mercator +proj=merc +a=6378137 +b=6378137 +lat_ts=0.0 +lon_0=0.0 +x_0=0.0 +y_0=0 +k=1.0 +units=m +nadgrids=@null +no_defs",
		"GOOGLE":      "+title=WGS 84 / Pseudo-Mercator +proj=merc +a=6378137 +b=6378137 +lat_ts=0.0 +lon_0=0.0 +x_0=0.0 +y_0=0 +k=1.0 +units=m +nadgrids=@null +no_defs",
		"EPSG:900913": "+title=WGS 84 / Pseudo-Mercator +proj=merc +a=6378137 +b=6378137 +lat_ts=0.0 +lon_0=0.0 +x_0=0.0 +y_0=0 +k=1.0 +units=m +nadgrids=@null +no_defs",
		"EPSG:102113": "+title=WGS 84 / Pseudo-Mercator +proj=merc +a=6378137 +b=6378137 +lat_ts=0.0 +lon_0=0.0 +x_0=0.0 +y_0=0 +k=1.0 +units=m +nadgrids=@null +no_defs",
	}
	keys := []string{"WGS84", "EPSG:4326", "EPSG:3857", "EPSG:3785", "GOOGLE", "EPSG:900913", "EPSG:102113"}
	k := keys[vChoose(len(keys))]
	byName, err := Parse(k)
	vAssert(err == nil && byName != nil, "name-parses")
	byDef, err := Parse(names[k])
	vAssert(err == nil && byDef != nil, "definition-parses")
	if byName == nil || byDef == nil {
		return
	}
	vAssert(byName.Equal(byDef, 3), "registered-name-equals-definition")
	again, _ := Parse(names[k])
	vAssert(byDef.Equal(again, 3), "parsing-twice-gives-equal-references")
	t, err := byName.NewTransform(byDef)
	vAssert(err == nil && t == nil, "newtransform-nil-for-equal-references")
	other, _ := Parse("+proj=utm +zone=15 +datum=NAD83 +units=m +no_defs")
	vAssert(!byName.Equal(other, 3), "different-references-not-equal")
	t2, err := byName.NewTransform(other)
	vAssert(err == nil && t2 != nil, "newtransform-non-nil-for-different-references")
	vReach("end")
}
