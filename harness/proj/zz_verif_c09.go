package proj

import "math"

// C09 (translation validation, reduced scope): each Go kernel in common.go
// against its proj4js 2.3.12 original, both evaluated symbolically on the
// same arguments; float arithmetic and libm are uninterpreted (mode U), so
// equal results are equal for every interpretation. The built-in tables are
// compared entry by entry.

func vSameNum(a, b float64) bool {
	return vOr(vAnd(math.IsNaN(a), math.IsNaN(b)), vSameBits(a, b))
}

func VH_C09_common_1arg() {
	vm := jsNewVM()
	x := vFloat64()
	switch vChoose(8) {
	case 0:
		vAssert(vSameNum(e0fn(x), vm.jsCallNum("common/e0fn", x)), "e0fn-equals-proj4js")
	case 1:
		vAssert(vSameNum(e1fn(x), vm.jsCallNum("common/e1fn", x)), "e1fn-equals-proj4js")
	case 2:
		vAssert(vSameNum(e2fn(x), vm.jsCallNum("common/e2fn", x)), "e2fn-equals-proj4js")
	case 3:
		vAssert(vSameNum(e3fn(x), vm.jsCallNum("common/e3fn", x)), "e3fn-equals-proj4js")
	case 4:
		vAssert(vSameNum(sign(x), vm.jsCallNum("common/sign", x)), "sign-equals-proj4js")
	case 5:
		vAssert(vSameNum(adjust_lon(x), vm.jsCallNum("common/adjust_lon", x)), "adjust_lon-equals-proj4js")
	case 6:
		vAssert(vSameNum(adjust_lat(x), vm.jsCallNum("common/adjust_lat", x)), "adjust_lat-equals-proj4js")
	default:
		vAssert(vSameNum(asinz(x), vm.jsCallNum("common/asinz", x)), "asinz-equals-proj4js")
	}
	vReach("end")
}

func VH_C09_common_nargs() {
	vm := jsNewVM()
	a, b, c, d, e := vFloat64(), vFloat64(), vFloat64(), vFloat64(), vFloat64()
	switch vChoose(4) {
	case 0:
		vAssert(vSameNum(msfnz(a, b, c), vm.jsCallNum("common/msfnz", a, b, c)), "msfnz-equals-proj4js")
	case 1:
		vAssert(vSameNum(tsfnz(a, b, c), vm.jsCallNum("common/tsfnz", a, b, c)), "tsfnz-equals-proj4js")
	case 2:
		vAssert(vSameNum(qsfnz(a, b), vm.jsCallNum("common/qsfnz", a, b)), "qsfnz-equals-proj4js")
	default:
		vAssert(vSameNum(mlfn(a, b, c, d, e), vm.jsCallNum("common/mlfn", a, b, c, d, e)), "mlfn-equals-proj4js")
	}
	vReach("end")
}

// iterative kernels: same value on convergence, and the Go error corresponds
// to the JS failure value (-9999 / NaN)
func VH_C09_common_iterative() {
	vm := jsNewVM()
	a, b, c, d, e := vFloat64(), vFloat64(), vFloat64(), vFloat64(), vFloat64()
	if vChoose(2) == 0 {
		g, err := phi2z(a, b)
		j := vm.jsCallNum("common/phi2z", a, b)
		if err != nil {
			vAssert(j == -9999, "phi2z-error-iff-proj4js-no-convergence")
		} else {
			vAssert(vSameNum(g, j), "phi2z-equals-proj4js")
		}
	} else {
		g, err := imlfn(a, b, c, d, e)
		j := vm.jsCallNum("common/imlfn", a, b, c, d, e)
		if err != nil {
			vAssert(j != j, "imlfn-error-iff-proj4js-nan")
		} else {
			vAssert(vSameNum(g, j), "imlfn-equals-proj4js")
		}
	}
	vReach("end")
}

// ---- built-in tables equal those of the proj4js release ----

func jsNumField(o *jsObj, k string) (float64, bool) {
	v, ok := o.m[k]
	if !ok {
		return 0, false
	}
	f, isNum := v.(float64)
	return f, isNum
}

func jsStrField(o *jsObj, k string) string {
	if v, ok := o.m[k]; ok {
		if s, isStr := v.(string); isStr {
			return s
		}
	}
	return ""
}

func vSplitComma(s string) []string {
	var out []string
	cur := ""
	for i := 0; i < len(s); i++ {
		if s[i] == ',' {
			out = append(out, cur)
			cur = ""
		} else {
			cur += string(s[i])
		}
	}
	if s != "" {
		out = append(out, cur)
	}
	return out
}

func VH_C09_tables() {
	vm := jsNewVM()
	switch vChoose(4) {
	case 0:
		js := vm.require("constants/Ellipsoid").(*jsObj)
		vAssert(len(js.keys) == len(ellipsoidDefs), "ellipsoid-table-same-size")
		for _, k := range js.keys {
			e := js.m[k].(*jsObj)
			g, ok := ellipsoidDefs[k]
			vAssert(ok, "ellipsoid-name-present: "+k)
			a, _ := jsNumField(e, "a")
			b, hasB := jsNumField(e, "b")
			rf, hasRf := jsNumField(e, "rf")
			vAssert(g.a == a, "ellipsoid-a: "+k)
			vAssert((!hasB && g.b == 0) || g.b == b, "ellipsoid-b: "+k)
			vAssert((!hasRf && g.rf == 0) || g.rf == rf, "ellipsoid-rf: "+k)
			vAssert(g.ellipseName == jsStrField(e, "ellipseName"), "ellipsoid-display-name: "+k)
		}
	case 1:
		js := vm.require("constants/Datum").(*jsObj)
		vAssert(len(js.keys) == len(datumDefs), "datum-table-same-size")
		for _, k := range js.keys {
			e := js.m[k].(*jsObj)
			g, ok := datumDefs[k]
			vAssert(ok, "datum-name-present: "+k)
			vAssert(g.ellipse == jsStrField(e, "ellipse"), "datum-ellipse: "+k)
			vAssert(g.datumName == jsStrField(e, "datumName"), "datum-display-name: "+k)
			tw := vSplitComma(jsStrField(e, "towgs84"))
			vAssert(len(tw) == len(g.towgs84), "datum-towgs84-count: "+k)
			if len(tw) == len(g.towgs84) {
				for i := range tw {
					vAssert(vNumOf(tw[i]) == g.towgs84[i], "datum-towgs84-term: "+k)
				}
			}
			ng := vSplitComma(jsStrField(e, "nadgrids"))
			vAssert(len(ng) == len(g.nadgrids), "datum-nadgrids-count: "+k)
		}
	case 2:
		js := vm.require("constants/PrimeMeridian").(*jsObj)
		vAssert(len(js.keys) == len(primeMeridian), "prime-meridian-table-same-size")
		for _, k := range js.keys {
			g, ok := primeMeridian[k]
			vAssert(ok, "prime-meridian-present: "+k)
			vAssert(g == js.m[k].(float64), "prime-meridian-value: "+k)
		}
	default:
		js := vm.require("constants/units").(*jsObj)
		vAssert(len(js.keys) == len(units), "unit-table-same-size")
		for _, k := range js.keys {
			g, ok := units[k]
			vAssert(ok, "unit-present: "+k)
			f, _ := jsNumField(js.m[k].(*jsObj), "to_meter")
			vAssert(g.to_meter == f, "unit-to-meter: "+k)
		}
	}
	vReach("end")
}
