package proj

import "math"

// C09 (translation validation, reduced scope): each Go kernel in common.go
// against its proj4js 2.3.12 original, both evaluated symbolically on the
// same arguments; float arithmetic and libm are uninterpreted (mode U), so
// equal results are equal for every interpretation. The built-in tables are
// compared entry by entry.

func vSameNum(a, b float64) bool {
	return vOr(vAnd(math.IsNaN(a), math.IsNaN(b)), vSameBits(a, b))
}

func VH_C09_common_1arg() {
	vm := jsNewVM()
	x := vFloat64()
	switch vChoose(8) {
	case 0:
		vAssert(vSameNum(e0fn(x), vm.jsCallNum("common/e0fn", x)), "e0fn-equals-proj4js")
	case 1:
		vAssert(vSameNum(e1fn(x), vm.jsCallNum("common/e1fn", x)), "e1fn-equals-proj4js")
	case 2:
		vAssert(vSameNum(e2fn(x), vm.jsCallNum("common/e2fn", x)), "e2fn-equals-proj4js")
	case 3:
		vAssert(vSameNum(e3fn(x), vm.jsCallNum("common/e3fn", x)), "e3fn-equals-proj4js")
	case 4:
		vAssert(vSameNum(sign(x), vm.jsCallNum("common/sign", x)), "sign-equals-proj4js")
	case 5:
		vAssert(vSameNum(adjust_lon(x), vm.jsCallNum("common/adjust_lon", x)), "adjust_lon-equals-proj4js")
	case 6:
		vAssert(vSameNum(adjust_lat(x), vm.jsCallNum("common/adjust_lat", x)), "adjust_lat-equals-proj4js")
	default:
		vAssert(vSameNum(asinz(x), vm.jsCallNum("common/asinz", x)), "asinz-equals-proj4js")
	}
	vReach("end")
}

func VH_C09_common_nargs() {
	vm := jsNewVM()
	a, b, c, d, e := vFloat64(), vFloat64(), vFloat64(), vFloat64(), vFloat64()
	switch vChoose(4) {
	case 0:
		vAssert(vSameNum(msfnz(a, b, c), vm.jsCallNum("common/msfnz", a, b, c)), "msfnz-equals-proj4js")
	case 1:
		vAssert(vSameNum(tsfnz(a, b, c), vm.jsCallNum("common/tsfnz", a, b, c)), "tsfnz-equals-proj4js")
	case 2:
		vAssert(vSameNum(qsfnz(a, b), vm.jsCallNum("common/qsfnz", a, b)), "qsfnz-equals-proj4js")
	default:
		vAssert(vSameNum(mlfn(a, b, c, d, e), vm.jsCallNum("common/mlfn", a, b, c, d, e)), "mlfn-equals-proj4js")
	}
	vReach("end")
}

// iterative kernels: same value on convergence, and the Go error corresponds
// to the JS failure value (-9999 / NaN)
func VH_C09_common_iterative() {
	vm := jsNewVM()
	a, b, c, d, e := vFloat64(), vFloat64(), vFloat64(), vFloat64(), vFloat64()
	if vChoose(2) == 0 {
		g, err := phi2z(a, b)
		j := vm.jsCallNum("common/phi2z", a, b)
		if err != nil {
			vAssert(j == -9999, "phi2z-error-iff-proj4js-no-convergence")
		} else {
			vAssert(vSameNum(g, j), "phi2z-equals-proj4js")
		}
	} else {
		g, err := imlfn(a, b, c, d, e)
		j := vm.jsCallNum("common/imlfn", a, b, c, d, e)
		if err != nil {
			vAssert(j != j, "imlfn-error-iff-proj4js-nan")
		} else {
			vAssert(vSameNum(g, j), "imlfn-equals-proj4js")
		}
	}
	vReach("end")
}

// ---- built-in tables equal those of the proj4js release ----

func jsNumField(o *jsObj, k string) (float64, bool) {
	v, ok := o.m[k]
	if !ok {
		return 0, false
	}
	f, isNum := v.(float64)
	return f, isNum
}

func jsStrField(o *jsObj, k string) string {
	if v, ok := o.m[k]; ok {
		if s, isStr := v.(string); isStr {
			return s
		}
	}
	return ""
}

func vSplitComma(s string) []string {
	var out []string
	cur := ""
	for i := 0; i < len(s); i++ {
		if s[i] == ',' {
			out = append(out, cur)
			cur = ""
		} else {
			cur += string(s[i])
		}
	}
	if s != "" {
		out = append(out, cur)
	}
	return out
}

func VH_C09_tables() {
	vm := jsNewVM()
	switch vChoose(4) {
	case 0:
		js := vm.require("constants/Ellipsoid").(*jsObj)
		vAssert(len(js.keys) == len(ellipsoidDefs), "ellipsoid-table-same-size")
		for _, k := range js.keys {
			e := js.m[k].(*jsObj)
			g, ok := ellipsoidDefs[k]
			vAssert(ok, "ellipsoid-name-present: "+k)
			a, _ := jsNumField(e, "a")
			b, hasB := jsNumField(e, "b")
			rf, hasRf := jsNumField(e, "rf")
			vAssert(g.a == a, "ellipsoid-a: "+k)
			vAssert((!hasB && g.b == 0) || g.b == b, "ellipsoid-b: "+k)
			vAssert((!hasRf && g.rf == 0) || g.rf == rf, "ellipsoid-rf: "+k)
			vAssert(g.ellipseName == jsStrField(e, "ellipseName"), "ellipsoid-display-name: "+k)
		}
	case 1:
		js := vm.require("constants/Datum").(*jsObj)
		vAssert(len(js.keys) == len(datumDefs), "datum-table-same-size")
		for _, k := range js.keys {
			e := js.m[k].(*jsObj)
			g, ok := datumDefs[k]
			vAssert(ok, "datum-name-present: "+k)
			vAssert(g.ellipse == jsStrField(e, "ellipse"), "datum-ellipse: "+k)
			vAssert(g.datumName == jsStrField(e, "datumName"), "datum-display-name: "+k)
			tw := vSplitComma(jsStrField(e, "towgs84"))
			vAssert(len(tw) == len(g.towgs84), "datum-towgs84-count: "+k)
			if len(tw) == len(g.towgs84) {
				for i := range tw {
					vAssert(vNumOf(tw[i]) == g.towgs84[i], "datum-towgs84-term: "+k)
				}
			}
			ng := vSplitComma(jsStrField(e, "nadgrids"))
			vAssert(len(ng) == len(g.nadgrids), "datum-nadgrids-count: "+k)
		}
	case 2:
		js := vm.require("constants/PrimeMeridian").(*jsObj)
		vAssert(len(js.keys) == len(primeMeridian), "prime-meridian-table-same-size")
		for _, k := range js.keys {
			g, ok := primeMeridian[k]
			vAssert(ok, "prime-meridian-present: "+k)
			vAssert(g == js.m[k].(float64), "prime-meridian-value: "+k)
		}
	default:
		js := vm.require("constants/units").(*jsObj)
		vAssert(len(js.keys) == len(units), "unit-table-same-size")
		for _, k := range js.keys {
			g, ok := units[k]
			vAssert(ok, "unit-present: "+k)
			f, _ := jsNumField(js.m[k].(*jsObj), "to_meter")
			vAssert(g.to_meter == f, "unit-to-meter: "+k)
		}
	}
	vReach("end")
}

// ---- projection files: init + forward + inverse against the JS originals ----
//
// The Go closure pair returned by the projection's constructor is compared with
// the JS module's init/forward/inverse run on a `this` object carrying the same
// parameter values. Every parameter is a free finite non-zero double (proj4js
// tests parameters for presence by truthiness, which treats 0 as absent; the
// port tests for NaN — zero-valued parameters are outside this comparison).

var vJSFields = []struct {
	js string
	g  func(*SR) *float64
}{
	{"a", func(s *SR) *float64 { return &s.A }}, {"b", func(s *SR) *float64 { return &s.B }},
	{"es", func(s *SR) *float64 { return &s.Es }}, {"e", func(s *SR) *float64 { return &s.E }},
	{"ep2", func(s *SR) *float64 { return &s.Ep2 }},
	{"lat0", func(s *SR) *float64 { return &s.Lat0 }}, {"lat1", func(s *SR) *float64 { return &s.Lat1 }},
	{"lat2", func(s *SR) *float64 { return &s.Lat2 }}, {"lat_ts", func(s *SR) *float64 { return &s.LatTS }},
	{"long0", func(s *SR) *float64 { return &s.Long0 }},
	{"x0", func(s *SR) *float64 { return &s.X0 }}, {"y0", func(s *SR) *float64 { return &s.Y0 }},
	{"k0", func(s *SR) *float64 { return &s.K0 }},
}

func vProjPair(goName, jsModule string, given []string, dir int) {
	sr := NewSR()
	this := jsNewObj()
	for _, f := range vJSFields {
		on := false
		for _, g := range given {
			on = on || g == f.js
		}
		if !on {
			continue
		}
		v := vFloat64()
		vAssume(vAnd(!math.IsNaN(v), !math.IsInf(v, 0), v != 0))
		*f.g(sr) = v
		this.set(f.js, v)
	}
	if goName == "merc" {
		// the Mercator forward reads the eccentricity stored in the SR, the JS one
		// the value its init derives from b/a: compared with the stored value being
		// that derivation (the two derivations differ by rounding only)
		con := sr.B / sr.A
		sr.Es = 1 - con*con
		sr.E = math.Sqrt(sr.Es)
	}
	sr.sphere = vChoose(2) == 1
	if sr.sphere {
		this.set("sphere", true)
	}
	x, y := vFloat64(), vFloat64()
	vAssume(vAnd(!math.IsNaN(x), !math.IsNaN(y)))
	fwdDir := dir == 0 || dir == 2 && vChoose(2) == 0
	ctor, ok := projections[goName]
	vAssert(ok, "projection-registered")
	fwd, inv, err := ctor(sr)
	vm := jsNewVM()
	mod := vm.require("projections/" + jsModule).(*jsObj)
	vm.call(mod.m["init"], this, nil)
	if err != nil {
		// the constructor rejected the parameters (proj4js leaves the object half initialised)
		vReach("end")
		return
	}
	if goName == "merc" && dir == 0 {
		// the usable region: proj4js' own range test can never fire (it joins the
		// four conditions with &&), the port rejects such positions
		vAssume(!(y*r2d > 90 || y*r2d < -90 || x*r2d > 180 || x*r2d < -180))
	}
	p := jsNewObj()
	p.set("x", x)
	p.set("y", y)
	var gx, gy float64
	var gerr error
	var r interface{}
	if fwdDir {
		gx, gy, gerr = fwd(x, y)
		r = vm.call(mod.m["forward"], this, []interface{}{p})
	} else {
		gx, gy, gerr = inv(x, y)
		r = vm.call(mod.m["inverse"], this, []interface{}{p})
	}
	ro, isPoint := r.(*jsObj)
	// proj4js signals failure through sentinel values (-9999, null, a number)
	// tested with ===; under uninterpreted arithmetic such a test can be
	// satisfied spuriously, so a mismatch counts only when it reproduces natively
	if gerr != nil {
		// ... or through a NaN coordinate (imlfn without convergence)
		jsFailed := !isPoint
		if isPoint {
			jsFailed = vOr(math.IsNaN(jsNum(ro.m["x"])), math.IsNaN(jsNum(ro.m["y"])))
		}
		vAssertCandidate(jsFailed, "go-error-only-where-proj4js-fails")
	} else {
		vAssertCandidate(isPoint, "proj4js-failure-only-where-go-errors")
		if isPoint {
			vAssert(vSameNum(gx, jsNum(ro.m["x"])), "x-equals-proj4js")
			vAssert(vSameNum(gy, jsNum(ro.m["y"])), "y-equals-proj4js")
		}
	}
	vReach("end")
}

var vAll = []string{"a", "b", "es", "e", "ep2", "lat0", "lat1", "lat2", "long0", "x0", "y0", "k0"}

func VH_C09_proj_tmerc() {
	vProjPair("tmerc", "tmerc", []string{"a", "es", "ep2", "lat0", "long0", "x0", "y0", "k0"}, 2)
}
func VH_C09_proj_merc_fwd() {
	vProjPair("merc", "merc", []string{"a", "b", "es", "e", "long0", "x0", "y0", "k0", "lat_ts"}, 0)
}
func VH_C09_proj_merc_inv() {
	vProjPair("merc", "merc", []string{"a", "b", "es", "e", "long0", "x0", "y0", "k0", "lat_ts"}, 1)
}
func VH_C09_proj_lcc_fwd()  { vProjPair("lcc", "lcc", vAll, 0) }
func VH_C09_proj_aea_fwd()  { vProjPair("aea", "aea", vAll, 0) }
func VH_C09_proj_eqdc_fwd() { vProjPair("eqdc", "eqdc", vAll, 0) }
func VH_C09_proj_eqdc_inv() { vProjPair("eqdc", "eqdc", vAll, 1) }

// the inverses of lcc and aea (phi2z / phi1z iterations times the constructor's
// cases) are not registered: not decided within 5 minutes

// ---- datum.go against datum.js: constructor and geocentric methods ----

// vDatumPair builds the Go datum (SR.getDatum) and the JS one (datum(proj))
// from the same description: ellipsoid values free, TOWGS84 with 0, 3 or 7
// free terms (any of them may be zero), datum code "none" or a name.
func vDatumPair() (*datum, *jsObj, *jsVM) {
	sr := NewSR()
	proj := jsNewObj()
	for _, f := range []struct {
		js string
		p  *float64
	}{{"a", &sr.A}, {"b", &sr.B}, {"es", &sr.Es}, {"ep2", &sr.Ep2}} {
		v := vFloat64()
		vAssume(!math.IsNaN(v))
		*f.p = v
		proj.set(f.js, v)
	}
	if vChoose(2) == 1 {
		sr.DatumCode = "none"
	} else {
		sr.DatumCode = "verif"
	}
	proj.set("datumCode", sr.DatumCode)
	n := []int{0, 3, 7}[vChoose(3)]
	if n > 0 {
		ps := jsNewObj()
		ps.arr = make([]interface{}, n)
		sr.DatumParams = make([]float64, n)
		for i := 0; i < n; i++ {
			v := vFloat64()
			vAssume(!math.IsNaN(v))
			sr.DatumParams[i] = v
			ps.arr[i] = v
		}
		proj.set("datum_params", ps)
	}
	vm := jsNewVM()
	jd := vm.call(vm.require("datum"), jsUndef{}, []interface{}{proj}).(*jsObj)
	return sr.getDatum(), jd, vm
}

func vSameDatum(g *datum, j *jsObj, vm *jsVM) {
	vAssert(float64(g.datum_type) == jsNum(vm.getMember(j, "datum_type")), "datum-type-equals-proj4js")
	jp, _ := vm.getMember(j, "datum_params").(*jsObj)
	if jp == nil {
		vAssert(len(g.datum_params) == 0, "datum-params-equal-proj4js")
	} else {
		vAssert(len(g.datum_params) == len(jp.arr), "datum-params-equal-proj4js")
		for i := range g.datum_params {
			if i < len(jp.arr) {
				vAssert(vSameNum(g.datum_params[i], jsNum(jp.arr[i])), "datum-params-equal-proj4js")
			}
		}
	}
	vAssert(vSameNum(g.a, jsNum(vm.getMember(j, "a"))) && vSameNum(g.b, jsNum(vm.getMember(j, "b"))) &&
		vSameNum(g.es, jsNum(vm.getMember(j, "es"))) && vSameNum(g.ep2, jsNum(vm.getMember(j, "ep2"))), "datum-ellipsoid-equals-proj4js")
}

func VH_C09_datum_constructor() {
	g, j, vm := vDatumPair()
	vSameDatum(g, j, vm)
	vReach("end")
}

func vJSPoint(x, y, z float64) *jsObj {
	p := jsNewObj()
	p.set("x", x)
	p.set("y", y)
	p.set("z", z)
	return p
}

// the Helmert steps to and from WGS84 in geocentric coordinates
func VH_C09_datum_helmert() {
	g, j, vm := vDatumPair()
	x, y, z := vFloat64(), vFloat64(), vFloat64()
	vAssume(vAnd(!math.IsNaN(x), !math.IsNaN(y), !math.IsNaN(z)))
	p := vJSPoint(x, y, z)
	var gx, gy, gz float64
	if vChoose(2) == 0 {
		gx, gy, gz = g.geocentric_to_wgs84(x, y, z)
		vm.call(vm.getMember(j, "geocentric_to_wgs84"), j, []interface{}{p})
	} else {
		gx, gy, gz = g.geocentric_from_wgs84(x, y, z)
		vm.call(vm.getMember(j, "geocentric_from_wgs84"), j, []interface{}{p})
	}
	vAssert(vSameNum(gx, jsNum(p.m["x"])) && vSameNum(gy, jsNum(p.m["y"])) && vSameNum(gz, jsNum(p.m["z"])), "helmert-step-equals-proj4js")
	vReach("end")
}

// geodetic <-> geocentric
func VH_C09_datum_to_geocentric()   { vDatumGeocentric(0) }
// geocentric_to_geodetic (iterative, 30 rounds) is not registered: not decided within 5 minutes

func vDatumGeocentric(dir int) {
	g, j, vm := vDatumPair()
	x, y, z := vFloat64(), vFloat64(), vFloat64()
	vAssume(vAnd(!math.IsNaN(x), !math.IsNaN(y), !math.IsNaN(z)))
	if dir == 0 {
		// usable region: latitudes within [-pi/2, pi/2] (the 0.1 % tolerance band
		// beyond the poles is delimited by a constant that differs in the last
		// place between the two languages' constant arithmetic), and a non-zero
		// height (proj4js replaces a zero or missing height by +0)
		vAssume(vAnd(!(y < -halfPi), !(y > halfPi), z != 0))
	}
	p := vJSPoint(x, y, z)
	if dir == 0 {
		gx, gy, gz, err := g.geodetic_to_geocentric(x, y, z)
		r := vm.call(vm.getMember(j, "geodetic_to_geocentric"), j, []interface{}{p})
		if err != nil {
			// proj4js returns null for a latitude out of range
			vAssertCandidate(r == nil, "go-error-only-where-proj4js-fails")
		} else {
			vAssertCandidate(r != nil, "proj4js-failure-only-where-go-errors")
			vAssert(vSameNum(gx, jsNum(p.m["x"])) && vSameNum(gy, jsNum(p.m["y"])) && vSameNum(gz, jsNum(p.m["z"])), "geodetic-to-geocentric-equals-proj4js")
		}
	} else {
		gx, gy, gz := g.geocentric_to_geodetic(x, y, z)
		vm.call(vm.getMember(j, "geocentric_to_geodetic"), j, []interface{}{p})
		vAssert(vSameNum(gx, jsNum(p.m["x"])) && vSameNum(gy, jsNum(p.m["y"])) && vSameNum(gz, jsNum(p.m["z"])), "geocentric-to-geodetic-equals-proj4js")
	}
	vReach("end")
}
