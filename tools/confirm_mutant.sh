#!/bin/bash
# confirm_mutant.sh <PROP> <k>: in the scratch worktree /tmp/mut/<PROP>, confirm that mutant k
# compiles, keeps the existing suite green, and that its demonstration fails with it and passes without.
P=$1; K=$2; W=/tmp/mut/$P; O=/tmp/mut/$P.out
export GOFLAGS=-mod=mod GOPROXY=off GOSUMDB=off GOTOOLCHAIN=local
cd $W || exit 2
git checkout -q -- . ; git clean -fdq
place=$(head -1 $O/mutant${K}_test.go | sed 's#// place in: *##')
tf=$place/zz_mutant_demo_test.go
cp $O/mutant${K}_test.go $tf
name=$(grep -o 'func Test[A-Za-z0-9_]*' $tf | sed 's/func //' | paste -sd'|')
base=$(timeout 120 go test -count=1 -run "^($name)\$" ./$place 2>&1 | tail -1)
git apply $O/mutant${K}.diff || { echo "$P-$K apply-failed"; exit 1; }
build=$(go build ./... 2>&1 | grep -v carto | head -3)
with=$(timeout 60 go test -count=1 -run "^($name)\$" ./$place 2>&1 | tail -1)
rm -f $tf
suite=$(go test -count=1 . ./encoding/... ./index/... ./proj/... ./route/... ./test/... 2>&1 | grep -v "^ok\|no test files" | head -3)
git checkout -q -- . ; git clean -fdq
echo "$P-$K | base: $base | with-mutant: $with | build: ${build:-ok} | suite: ${suite:-all ok}"
