#!/usr/bin/env python3
# writes seeded/<id>/meta.json from the table below (what was run and what it showed)
import json, os, re
V = {
 "C01-1": ("caught", "VH_C01_bounds_bounds:non-nil-result-has-area", "missed by the C01 check at first (box x box was only covered by C04's VH_C04_boxintersection, which does catch it); harness VH_C01_bounds_bounds added"),
 "C01-2": ("caught", "VH_C01_marshalling:operation-constant", ""),
 "C02-1": ("caught", "VH_C02_polygon_1ring, _2rings, _multipolygon:within-equals-exact-classifier; VH_C02_receivers", ""),
 "C02-2": ("caught", "VH_C02_multipolygon:within-equals-exact-classifier", ""),
 "C03-1": ("caught", "VH_C03_area_hole_fixed_shell:fixed-shell-minus-hole-any-spelling", "missed at first (the with-hole area harness is thorough-only); quick harness with a fixed shell in every spelling and a free hole added"),
 "C03-2": ("caught", "VH_C03_distance_degenerate:linestring-with-repeated-vertex", "harness for zero-length segments added"),
 "C04-1": ("caught", "VH_C04_collection, _extend, _multilinestring", ""),
 "C04-2": ("caught", "VH_C04_polygon:points-iterator-panics", ""),
 "C05-1": ("caught", "VH_C05_linestring_chunks", "missed at first (bound <= 3 points); harness with lengths around the code's chunk constant added"),
 "C05-2": ("caught", "VH_C05_polygon, _multipolygon, _collection:bytes-equal-independent-ogc-serializer", ""),
 "C06-1": ("caught", "VH_C06_multilinestring, _polygon, _multipolygon:decode-succeeds", ""),
 "C06-2": ("caught", "VH_C06_polygon, _multipolygon:decode-encode-identity", ""),
 "C07-1": ("caught", "VH_C07_wkb_len0to12, _len13to21:redecode-succeeds", ""),
 "C07-2": ("caught", "VH_C07_json_arbitrary, _json_mutated:fromgeojson-panics", ""),
 "C09-1": ("caught", "VH_C09_datum_constructor:datum-type-equals-proj4js", "outside the first (kernels+tables) scope of C09; caught after datum.js was paired with datum.go"),
 "C09-2": ("caught", "VH_C09_proj_tmerc:x-equals-proj4js", "outside the first scope of C09; caught after the projection files were paired"),
 "C10-1": ("caught", "VH_C10_transform_flat, _collection:transformer-error-returned", ""),
 "C10-2": ("caught", "VH_C10_state_07_longlat7_wgs84:call-leaves-transformer-state-unchanged", "the behavioural two-call harness (history_07) did not terminate on it within 50 minutes; the inductive state-step harnesses were added and catch it in 100 s"),
 "C11-1": ("caught", "VH_C11_* (enlarge contract and history harnesses)", "timed out at first (CFG change defeated the if-converter); if-converter generalised to nested regions"),
 "C11-2": ("caught", "VH_C11_delete_h2, VH_C11_history:depth-equals-leaf-depth", ""),
 "C12-1": ("caught", "VH_C12_knn_h2, VH_C12_nn", ""),
 "C12-2": ("caught", "VH_C12_knn_h2, VH_C12_nn", ""),
 "C13-1": ("caught", "VH_C13_linestring_tolerance:dropped-vertex-within-tolerance", ""),
 "C13-2": ("caught", "VH_C13_linestring_simplicity_chord:simple-input-gives-simple-output", "missed at first (needs five vertices; the quick simplicity harness had four); the added harness also exposed the unchecked closing segment, repaired in /repo 5af986c"),
 "C14-1": ("caught", "VH_C14_clip_no_shortcut:clipper-called-once", "reported as a broken check at first (arithmetic on order-only floats); grid-mode harness added"),
 "C14-2": ("caught", "VH_C14_clip_marshalling:every-line-sent-as-one-contour-in-order", ""),
 "C15-1": ("caught", "VH_C15_reject_ring", "missed at first; harness added"),
 "C15-2": ("caught", "VH_C15_reject:member-inserted, VH_C15_sym_multilinestring:similar-symmetric", ""),
 "C16-1": ("caught", "VH_C16_polygon:ring-identical-and-closed", ""),
 "C16-2": ("caught", "VH_C16_multilinestring:part-identical", ""),
 "C17-1": ("caught", "VH_C17_* (lossy format modelled as a non-round-tripping token)", "reported as a broken check at first (unsupported format)"),
 "C17-2": ("caught", "VH_C17_multilinestring", ""),
 "C18-1": ("caught", "VH_C18_filter:filter-closed-under-relation-references, filter-idempotent", "missed at first: the relation-of-relations template was thorough-only; now in quick"),
 "C18-2": ("caught", "VH_C18_extract_shared_ids:node-count-is-least-closed-set", "missed at first: no template had a node and a way with the same number; template and harness added"),
 "C19-1": ("caught", "VH_C19_detour:no-faster-path-exists", "missed at first: all topologies were collinear (the over-estimating heuristic cannot mislead A* there) and a first detour topology left the exact domain (irrational heuristic distances made the candidate undecided); 7-24-25 rectangle added"),
 "C19-2": ("caught", "VH_C19_disconnected:shortestroute-panics", ""),
 "C20-1": ("caught", "VH_C20_projected:datum-param, datum-type", ""),
 "C20-2": ("caught", "VH_C20_projected:y0", "reported as a broken check at first (candidate on the metre path where x*1 was an uninterpreted term); x*1 = x added to the U lifter"),
}
import sys
for a in sys.argv[1:]:
    k, v = a.split("=", 1)
    st, by, note = V[k]
    parts = v.split("|")
    V[k] = (parts[0], parts[1] if len(parts) > 1 else by, parts[2] if len(parts) > 2 else note)
root = "/verif/seeded"
for d in sorted(os.listdir(root)):
    p = os.path.join(root, d)
    if not os.path.isdir(p) or d not in V: continue
    notes = open(os.path.join(p, "notes.md")).read()
    title = notes.splitlines()[0].lstrip("# ").strip()
    m = re.search(r"(?:Needed to manifest|What is needed|Needs|What it needs|needed)[^:]*:\s*(.+?)(?:\n[A-Z#\-]|\nCommands|\Z)", notes, re.S)
    needs = " ".join(m.group(1).split()) if m else ""
    st, by, note = V[d]
    meta = {
        "property": d.split("-")[0],
        "title": title,
        "written_by": "independent sub-agent given only the property text and a scratch worktree",
        "needs_to_manifest": needs,
        "confirmed": "tools/confirm_mutant.sh in a scratch worktree: builds, existing suite green with the change, demo_test.go fails with it and passes without",
        "check_run": "tools/run_seeded.sh %s (git -C /repo apply patch.diff; /verif/bin/gosmt check %s --tier quick; git -C /repo checkout -- .)" % (d, d.split("-")[0]),
        "verdict": st,
        "caught_by": by,
        "history": note,
    }
    json.dump(meta, open(os.path.join(p, "meta.json"), "w"), indent=1)
print("meta written:", len(V))
