#!/usr/bin/env python3
"""Replays the queries of GOSMT_LOG session files one by one and reports the slow ones."""
import os, subprocess, sys, time
d = sys.argv[1]; limit = float(sys.argv[2]) if len(sys.argv) > 2 else 5
cap = int(sys.argv[3]) if len(sys.argv) > 3 else 60
n = 0
for f in sorted(os.listdir(d)):
    if not f.startswith('session'): continue
    qs = open(os.path.join(d, f)).read().split('(reset)\n')[1:]
    for i, q in enumerate(qs):
        q = q.split('(get-value')[0]
        if len(q) < 20000: continue
        p = os.path.join(d, 'q.smt2'); open(p, 'w').write(q)
        t = time.time()
        out = subprocess.run(['z3', '-T:%d' % cap, p], capture_output=True, text=True).stdout.strip()[:20]
        dt = time.time() - t
        if dt > limit:
            n += 1
            keep = os.path.join(d, 'slow%d.smt2' % n); open(keep, 'w').write(q)
            print(f, i, round(dt, 1), out, len(q), keep, flush=True)
            if n >= 5: sys.exit(0)
