#!/bin/bash
# run_seeded.sh <seeded-dir-name> [extra gosmt args]: apply the seeded change to /repo, run the property's
# quick check, undo the change, and print the verdict.
S=$1; shift
P=${S%%-*}
cd /repo && git diff --quiet || { echo "/repo not clean"; exit 2; }
git apply /verif/seeded/$S/patch.diff || { echo "$S apply-failed"; exit 2; }
out=$(cd /verif && timeout 3000 ./bin/gosmt check $P --tier quick "$@" 2>/dev/null)
code=$?
git -C /repo checkout -- .
v=$(echo "$out" | grep -c "^VIOLATION")
b=$(echo "$out" | grep -c "^CHECK-BROKEN")
labels=$(echo "$out" | grep "harness=" | sed 's/.*harness=\([^ ]*\) kind=\([^ ]*\) label=\([^ ]*\).*/\1:\3/' | sort -u | head -4 | paste -sd, )
echo "$S exit=$code violations=$v broken=$b $labels"
echo "$out" | grep "^CHECK-BROKEN" | head -2
