#!/bin/bash
# run every registered quick check against /repo's working tree, one after the other (each uses all cores)
cd /verif
for id in $(python3 -c "import json; print(' '.join(c['property_id'] for c in json.load(open('MANIFEST.json'))['checks']))"); do
  s=$(date +%s)
  timeout 900 ./bin/gosmt check $id --tier quick > /tmp/all_$id.log 2>&1
  code=$?
  e=$(date +%s)
  echo "$id exit=$code wall=$((e-s))s $(grep -c '^VIOLATION' /tmp/all_$id.log) violations, $(grep -c '^CHECK-BROKEN' /tmp/all_$id.log) broken, $(grep -c '^KNOWN-FINDING' /tmp/all_$id.log) known"
done
